#!/bin/sh
# Offline setup: parse every specification and pre-compute the specification-only TLC runs
# (they do not read /repo; results are cached under .cache keyed by the hash of spec/*.tla + cfg).
set -e
cd "$(dirname "$0")"
for f in spec/*.tla; do
  (cd spec && tla-sany "$(basename "$f")" > /tmp/sany.$$ 2>&1) || { cat /tmp/sany.$$; rm -f /tmp/sany.$$; echo "SANY failed: $f"; exit 1; }
done
rm -f /tmp/sany.$$
PYTHONHASHSEED=0 /venv/bin/python -m harness.warm
echo setup ok
