#!/venv/bin/python
"""Evaluate a HARMLESS refactoring (a change that must NOT be reported): patch.diff + meta.json.

usage: tools_benign.py <dir-with-patch> <id> [--checks C05,C06] [--tier quick] [--keep]

1. copies /repo's working tree (src, tests) to a scratch directory outside /repo and /verif,
2. applies the patch there, runs the repository's tests against the copy (must still pass),
3. runs the listed checks (default: the property named in meta.json) with VERIF_REPO=<copy>: each has to exit 0,
4. removes the copy; --keep stores patch and verdicts under /verif/benign/<id>/.
"""
import argparse
import json
import os
import shutil
import subprocess
import sys
import tempfile

PY = "/venv/bin/python"


def sh(cmd, **kw):
    return subprocess.run(cmd, capture_output=True, text=True, **kw)


def main() -> int:
    """usage: tools_benign.py <dir-with-patch.diff-and-meta.json> <id> [--checks C05,C06] [--keep]
    Applies the patch to a copy of /repo, runs the repository tests and the listed checks (default: the property named in
    meta.json) with VERIF_REPO=<copy>; every check has to stay silent (exit 0).  --keep stores it under /verif/benign/<id>/."""
    ap = argparse.ArgumentParser()
    ap.add_argument("src")
    ap.add_argument("seed_id")
    ap.add_argument("--checks")
    ap.add_argument("--tier", default="quick")
    ap.add_argument("--keep", action="store_true")
    a = ap.parse_args()
    meta = json.load(open(os.path.join(a.src, "meta.json")))
    prop = meta["property"]
    checks = a.checks.split(",") if a.checks else [prop]
    d = tempfile.mkdtemp(prefix="benign-", dir="/tmp")
    try:
        shutil.copytree("/repo/src", os.path.join(d, "src"))
        shutil.copytree("/repo/tests", os.path.join(d, "tests"))
        p = sh(["patch", "-p1", "-s", "-i", os.path.abspath(os.path.join(a.src, "patch.diff"))], cwd=d)
        if p.returncode != 0:
            print(f"{a.seed_id}: PATCH DOES NOT APPLY:", p.stdout[-300:], p.stderr[-300:])
            return 3
        env = dict(os.environ, PYTHONPATH=os.path.join(d, "src"))
        t = sh([PY, "-m", "pytest", "-q", "-p", "no:cacheprovider", "tests"], cwd=d, env=env, timeout=900)
        tests_ok = " passed" in t.stdout and " failed" not in t.stdout and "error" not in t.stdout.splitlines()[-1]
        print(f"{a.seed_id}: tests {'pass' if tests_ok else 'FAIL: ' + t.stdout.splitlines()[-1]}")
        results = {}
        for c in checks:
            r = sh(["./check", c, "--tier", a.tier], cwd="/verif", env=dict(os.environ, VERIF_REPO=d), timeout=7200)
            viol = [ln for ln in r.stdout.splitlines() if ln.startswith("VIOLATION")]
            what = [ln.strip() for ln in r.stdout.splitlines() if ln.strip().startswith("what:")]
            results[c] = {"exit": r.returncode, "violations": len(viol), "first": what[0][:300] if what else ""}
            print(f"   check {c} ({a.tier}): exit {r.returncode}, {len(viol)} VIOLATION line(s) {what[0][:200] if what else ''}")
            if r.returncode == 2:
                print(r.stdout[-800:], r.stderr[-800:])
        if a.keep:
            out = os.path.join("/verif/benign", a.seed_id)
            os.makedirs(out, exist_ok=True)
            shutil.copy(os.path.join(a.src, "patch.diff"), out)
            meta.update({"tests_pass_with_patch": tests_ok, "ran": [f"./check {c} --tier {a.tier} (VERIF_REPO=<patched copy>)" for c in checks], "verdicts": results})
            json.dump(meta, open(os.path.join(out, "meta.json"), "w"), indent=1)
        return 0
    finally:
        shutil.rmtree(d, ignore_errors=True)


if __name__ == "__main__":
    sys.exit(main())
