#!/bin/sh
# usage: tools_mutant.sh <file-relative-to-src/multidecoder> <sed-expr> <PROP> [tier]
# copies /repo to a scratch dir, applies the mutation, runs the repository tests against the copy
# and then the given check with VERIF_REPO pointing at it; removes the copy afterwards.
set -e
D=$(mktemp -d /tmp/mut.XXXXXX)
cp -r /repo/src /repo/tests "$D"/
[ -f /repo/setup.cfg ] && cp /repo/setup.cfg /repo/pyproject.toml "$D"/ 2>/dev/null || true
sed -i "$2" "$D/src/multidecoder/$1"
if diff -q "$D/src/multidecoder/$1" "/repo/src/multidecoder/$1" >/dev/null; then echo "MUTATION DID NOT APPLY"; rm -rf "$D"; exit 3; fi
(cd "$D" && PYTHONPATH="$D/src" timeout 300 /venv/bin/python -m pytest -q -p no:cacheprovider tests 2>&1 | tail -n 1)
cd /verif
VERIF_REPO="$D" timeout 1200 ./check "$3" --tier "${4:-quick}" 2>&1 | grep -E "VIOLATION|KNOWN|ok \(|FAIL|MACHINERY" | head -n 4 | cut -c1-250
rm -rf "$D"
