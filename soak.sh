#!/bin/sh
# soak.sh <tier> <seed>...   run every check with each seed on the tree under test; print one line per run
tier=$1; shift
for s in "$@"; do
  for p in C01 C02 C03 C04 C05 C06 C07 C08 C09 C10 C11 C12 C13 C14 C15 C16 C17 C18 C19 C20; do
    out=$(VERIF_SEED=$s timeout 7200 ./check $p --tier $tier 2>&1)
    rc=$?
    echo "seed=$s $p rc=$rc $(echo "$out" | tail -n 1 | cut -c1-120)"
    if [ $rc -ne 0 ]; then echo "$out" | grep -E "what:|MACHINERY" | head -n 4 | cut -c1-400; fi
  done
done
