"""C02: layered obfuscation round-trips.  Layers.tla decides domain, expected chain and flattened text."""
from __future__ import annotations

import base64
import itertools
import json
import os
import random

from . import drivers, tlc
from .common import MachineryError, Result, scratch, use_repo


def b2l(b: bytes) -> list[int]:
    return list(b)


MARK = b"#@"


def wm(x: bytes) -> bytes:
    h = len(x) // 2
    return x[:h] + MARK + x[h:]


def wrapped(x: bytes, w: int, nl: bytes) -> bytes:
    t = base64.b64encode(x)
    return nl.join(t[i:i + w] for i in range(0, len(t), w))


ENC = {
    "b64": lambda x: base64.b64encode(x),
    "b64w30": lambda x: wrapped(x, 30, b"\r\n"),
    "b64w50": lambda x: wrapped(x, 50, b"\n"),
    "b64w76": lambda x: wrapped(x, 76, b"\r\n"),
    "b64e32": lambda x: wrapped(x, 32, b"&#13;&#10;"),
    "b64e64": lambda x: wrapped(x, 64, b"&#xD;&#10;"),
    "atob": lambda x: b"atob('" + base64.b64encode(x) + b"')",
    "Base64Decode": lambda x: b'Base64Decode("' + base64.b64encode(x) + b'")',
    "FromBase64String": lambda x: b"FromBase64String('" + base64.b64encode(x) + b"')",
    "hex": lambda x: x.hex().encode(),
    "hexU": lambda x: x.hex().upper().encode(),
    "FromHexString": lambda x: b"FromHexString('" + x.hex().encode() + b"')",
    "utf16": lambda x: b"".join(bytes([c, 0]) for c in x),
    "xmldec": lambda x: b"".join(b"&#%d;" % c for c in x),
    "xmlhex": lambda x: b"".join(b"&#x%02x;" % c for c in x),
    "xmlhexU": lambda x: b"".join(b"&#X%02X;" % c for c in x),
    "unescape": lambda x: b"unescape('" + b"".join(b"%%%02X" % c for c in x) + b"')",
    "unescapeP": lambda x: b"unescape('" + b"".join((b"%%%02X" % c) if (c in (37, 39) or c < 32 or c > 126) else bytes([c]) for c in x) + b"')",
    "concat": lambda x: b"'" + x[: len(x) // 2] + b"' + \"" + x[len(x) // 2:] + b'"',
    "reverse": lambda x: b"reverse('" + x[::-1] + b"')",
    "StrReverse": lambda x: b'StrReverse("' + x[::-1] + b'")',
    "replace.method": lambda x: b'"' + wm(x) + b"\".replace('" + MARK + b"','')",
    "replace.vba": lambda x: b'Replace("' + wm(x) + b'", "' + MARK + b'", "")',
    "replace.ps": lambda x: b"'" + wm(x) + b"' -replace '" + MARK + b"',''",
    "replace.js": lambda x: b'"' + wm(x) + b'".replace(/' + MARK + b'/g,"")',
    "caret": lambda x: b"c^md /c " + x,
    "psbytes": lambda x: b",".join(b"%d" % c for c in x),
    "psbytesZ": lambda x: b", ".join(b"%03d" % c for c in x),
    "psbytesM": lambda x: b",".join((b"0x%02x" % c) if i % 2 else (b"%d" % c) for i, c in enumerate(x)),
}
KINDS = [k for k in ENC if not k.startswith("psbytes")]
PAYLOADS = [
    (b"plain text payload without indicators 12345", []),
    (b"fetch 10.20.30.40 and 172.16.5.9 now", [("network.ip", b"10.20.30.40"), ("network.ip", b"172.16.5.9")]),
    (b"beacon to evil-site.net every hour", [("network.domain", b"evil-site.net")]),
    (b"get http://evil-site.net/malware.exe now", [("network.url", b"http://evil-site.net/malware.exe")]),
    (b"mail admin@example.org about /usr/local/bin/tool", [("network.email", b"admin@example.org"), ("path", b"/usr/local/bin/tool")]),
    (b"abcdefghij klmnopqrs tuvwxyz 0123456789", []),
    # an undecoded indicator nested inside another, closely followed by a further one
    (b"run /tmp/payload/evil.exe 10.1.2.3 now", [("path", b"/tmp/payload/evil.exe"), ("network.ip", b"10.1.2.3")]),
    (b"to administrator@evil-site.com 10.1.2.3 C:\\Users\\Public\\a.dll", [("network.email", b"administrator@evil-site.com"), ("network.ip", b"10.1.2.3")]),
    # text that looks like escapes of the layers around it (each layer is removed exactly once)
    (b"heap %u9090%u9090 spray then 10.20.30.40 %2541 &#65; done", [("network.ip", b"10.20.30.40")]),
    (b"x", []),
    (b"short1", []),
]
PRE = [b"", b"x = ", b"data: ", b"abc;\n", b"C:\\Users\\bob\\"]       # (the last one: an undecoded indicator glued to the blob and running into it)
SUF = [b"", b" ", b"\n", b" ;"]


def found_nested(tree) -> list[dict]:
    def proj(n, s, e):
        return {"ty": n.type, "obf": n.obfuscation, "val": b2l(n.value), "s": s, "e": e,
                "kids": [proj(c, c.start, c.end) for c in n.children]}

    out = []

    def walk(n, off):
        for c in n.children:
            out.append(proj(c, off + c.start, off + c.end))
            if c.value.lower() == n.value[c.start:c.end].lower() and c.start >= 0:
                walk(c, off + c.start)

    walk(tree, 0)
    return out


def proposals(tier: str, rng: random.Random) -> list[tuple]:
    out = []
    # every single layer, every ordered pair; triples and deeper stacks sampled (all of them in the thorough tier for triples)
    for k in KINDS:
        for p in range(len(PAYLOADS)):
            out.append(((k,), p))
    pairs = list(itertools.product(KINDS, repeat=2))
    for st in pairs:
        out.append((st, rng.randrange(len(PAYLOADS) - 2)))
    triples = list(itertools.product(KINDS, repeat=3))
    for st in (triples if tier == "thorough" else rng.sample(triples, 500)):
        out.append((st, rng.randrange(len(PAYLOADS) - 2)))
    for _ in range(60 if tier == "quick" else 1500):
        h = rng.randint(4, 7)
        out.append((tuple(rng.choice(KINDS) for _ in range(h)), rng.randrange(4)))
    # byte arrays need >= 501 numbers: a long inner text
    long_payload = (b"get http://evil-site.net/malware.exe now; " * 14)[:560]
    out.append((("psbytes",), long_payload))
    out.append((("psbytesZ",), long_payload))
    out.append((("psbytesM",), long_payload))
    out.append((("psbytesM", "atob"), long_payload[:505]))
    # a payload whose byte values all have two decimal digits (upper-case text): the array also reads as comma-separated hex pairs
    upper_payload = (b"BEACON TO 10.20.30.40 AND 172.16.5.9 EVERY HOUR; " * 14)[:560]      # (nothing in it that flattening normalises)
    out.append((("psbytes",), upper_payload))
    out.append((("psbytes", "FromBase64String"), upper_payload[:505]))
    out.append((("psbytesZ", "FromBase64String"), long_payload[:505]))
    out.append((("b64", "psbytes"), long_payload[:390]))
    # a byte array directly under the layer kinds whose text stays short, and above a few others (TLC re-encodes these:
    # kept small because every layer multiplies the length)
    for k in ("FromBase64String", "FromHexString", "atob", "Base64Decode", "b64", "hex", "unescape"):
        out.append((("psbytes", k), long_payload[:505]))
    for k in ("atob", "concat", "StrReverse"):
        out.append(((k, "psbytes"), long_payload[:130]))
    return out


def run(prop: str, tier: str) -> int:
    use_repo()
    from multidecoder.multidecoder import Multidecoder

    res = Result(prop, tier, "exploration")
    res.assumptions += ["stacks and payloads are proposed by the harness; TLC re-encodes them, decides per layer whether the wrapped text is inside the "
                        "documented domain, and computes the expected chain and flattened text",
                        "one fixed spelling per layer kind (quote style, separator); the spelling variants are C13-C15's business",
                        "payload indicators are expected as direct children of the innermost node; containment, not equality of whole trees"]
    rng = drivers.rng_for("layers")
    md = Multidecoder()
    events = []
    for i, (stack, p) in enumerate(proposals(tier, rng)):
        payload, indicators = (PAYLOADS[p] if isinstance(p, int) else (p, [("network.ip", b"10.20.30.40")] if p.isupper() else [("network.url", b"http://evil-site.net/malware.exe")]))
        text = payload
        for k in stack:
            text = ENC[k](text)
            if len(text) > 60000:
                break
        if len(text) > 60000:
            continue
        pre, suf = PRE[i % len(PRE)], SUF[(i // len(PRE)) % len(SUF)]
        if stack[-1] == "caret":
            suf = b""            # a cmd command runs to the end of the text (or the next NUL)
        data = pre + text + suf
        ev = {"stack": list(stack), "payload": b2l(payload), "pre": b2l(pre), "suf": b2l(suf), "input": b2l(data),
              "indicators": [{"ty": t, "val": b2l(v)} for t, v in indicators], "found": [], "flat": [], "raised": ""}
        try:
            if i % 4 == 3:       # the other public entry point: a node prepared by the caller (constructor's default span)
                from multidecoder.node import Node

                tree = md.scan_node(Node("", data))
            else:
                tree = md.scan(data)
            ev["found"] = found_nested(tree)
            ev["flat"] = b2l(tree.flatten())
        except Exception as e:  # noqa: BLE001
            ev["raised"] = type(e).__name__
        events.append(ev)
    path = os.path.join(scratch("layers"), "ev.ndjson")
    with open(path, "w") as f:
        for ev in events:
            f.write(json.dumps(ev) + "\n")
    n = len(events)
    v, r = tlc.run_trace("Layers", "SPECIFICATION Spec\nCHECK_DEADLOCK FALSE\n", path, n, max_lines=4000, max_bytes=40_000_000)
    na = sum(1 for cl in v.values() if "n/a" in cl)
    heights: dict[int, int] = {}
    for t, cl in v.items():
        ev = events[t - 1]
        if "n/a" not in cl:
            heights[len(ev["stack"])] = heights.get(len(ev["stack"]), 0) + 1
        for c in cl:
            if c.startswith("machinery"):
                raise MachineryError(f"harness and specification disagree on the encoding of {ev['stack']}")
            if c in ("chain", "flatten", "raised"):
                res.violation(f"stack {ev['stack']} (innermost first) around {bytes(ev['payload'])[:50]!r}: clause {c}; input {bytes(ev['input'])[:160]!r}",
                              {"clause": c, "outermost": ev["stack"][-1], "height": len(ev["stack"])},
                              {"kind": "layers", "stack": ev["stack"], "input_hex": bytes(ev["input"]).hex(), "payload": bytes(ev["payload"]).decode("latin-1"),
                               "flat": bytes(ev["flat"]).decode("latin-1")})
    res.coverage["evaluations"] = n
    res.coverage["distinct_nontrivial"] = n - na
    res.coverage["not_judged_outside_domain"] = na
    res.coverage["judged_by_height"] = heights
    res.coverage["traces_validated_against_impl"] = n
    res.coverage["rule"] = ("one case per (stack, payload, surroundings): all single layers x all payload classes, all ordered pairs, sampled (thorough: all) triples, "
                            "random stacks of height 4..7; non-trivial = every layer inside its documented domain according to TLC")
    res.sample({"stack": events[30]["stack"], "input": bytes(events[30]["input"]).decode("latin-1")[:200]})
    res.sample({"stack": events[-3]["stack"], "input": bytes(events[-3]["input"]).decode("latin-1")[:200]})
    return res.finish()
