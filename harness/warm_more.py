"""The remaining specification-only runs of the quick tier (see warm.py)."""
from __future__ import annotations

from . import engine, tlc


def jobs(res):
    def shell():
        for cfg in ("ShellMC_caret.cfg", "ShellMC_paren.cfg", "ShellMC_caret_asis.cfg", "ShellMC_paren_asis.cfg"):
            tlc.run("ShellMC", cfg, cache=True, timeout=3000, heap="12g")

    def small():
        tlc.run("CodecMC", "CodecMC.cfg", cache=True, timeout=1200)
        tlc.run("HelpersMC", "HelpersMC.cfg", cache=True, timeout=1200)
        tlc.run("UrlMC", "UrlMC.cfg", cache=True, timeout=600)
        tlc.run("UrlMC", "UrlMC_asis.cfg", cache=True, timeout=600)
        tlc.run("Repro", "Repro_asis.cfg", cache=True, timeout=3000)
        engine.oob_demo(res)
        engine.export_family("q")
        engine.export_family("t3s")
        engine.export_family("n4")
        engine.export_family("c4")
        engine.export_family("h3")

    return [
        shell,
        small,
        lambda: tlc.run("RegistryMC", "RegistryMC.cfg", cache=True, timeout=3000, heap="12g"),
        lambda: tlc.run("RegistryMC", "RegistryMC_files.cfg", cache=True, timeout=3000, heap="12g"),
        lambda: tlc.run("Repro", "Repro_fixed.cfg", cache=True, timeout=3000, heap="12g"),
    ]
