"""Demonstration that the binding between specification and implementation bites:
recorded traces of real scans are corrupted in one field each and must be rejected by ScanTrace.tla
(run: /venv/bin/python -m harness.selftest; writes selftest/result.json)."""
from __future__ import annotations

import copy
import json
import os
import sys

from . import drivers, engine
from .common import VERIF, scratch


def corruptions(tr: dict):
    tree = tr["tree"]
    if len(tree) < 3:
        return
    i = len(tree) - 1
    c = copy.deepcopy(tr); c["tree"][i]["s"] += 1; yield "node start + 1", c
    c = copy.deepcopy(tr); c["tree"][i]["e"] += 1; yield "node end + 1", c
    c = copy.deepcopy(tr); c["tree"][i]["p"] = 1 if tree[i]["p"] != 1 else 2; c["tree"][i]["pp"] = c["tree"][i]["p"]; yield "re-parented node", c
    c = copy.deepcopy(tr); c["tree"][i]["val"] = 1 if tree[i]["val"] != 1 else 2; yield "node value replaced", c
    c = copy.deepcopy(tr); c["tree"][i]["ty"] += "x"; yield "node type changed", c
    c = copy.deepcopy(tr); c["tree"][i]["pp"] = 1 if tree[i]["pp"] != 1 else 2; yield "parent pointer names another node", c
    c = copy.deepcopy(tr); del c["tree"][i]; c["iter"] = c["iter"][:-1]; yield "last node dropped", c
    c = copy.deepcopy(tr); c["iter"] = list(reversed(c["iter"])); yield "iteration order reversed", c
    # an unrecorded registry answer (as if the wrapper around one decoder were missing): the node that came from it loses its hit
    eng = [n for n in tree if n["by"] == "engine"]
    if eng:
        t, ix = eng[-1]["src"]
        c = copy.deepcopy(tr); c["hits"][t - 1][ix - 1]["s"] += 1; c["hits"][t - 1][ix - 1]["e"] += 1
        yield "recorded hit shifted by one (tree unchanged)", c
    c = copy.deepcopy(tr); c["searched"] = c["searched"][:-1]; yield "one Collect event missing", c
    c = copy.deepcopy(tr); c["k"] = 0; yield "depth limit recorded as 0", c


def main() -> int:
    from .record import Recorder

    rng = drivers.rng_for("selftest")
    rec = Recorder()
    base = []
    for data in list(drivers.nested(rng, 30)) + list(drivers.token_soup(rng, 60)):
        tr = rec.scan(data, 10)
        if tr["outcome"] == "ok" and len(tr["tree"]) >= 4:
            base.append(tr)
    base = base[:25]
    cases = [("uncorrupted", tr) for tr in base]
    for tr in base:
        cases += list(corruptions(tr))
    path = os.path.join(scratch("self"), "t.ndjson")
    with open(path, "w") as f:
        for _name, tr in cases:
            f.write(json.dumps(tr) + "\n")
    v, _r = engine.validate(path, len(cases))
    summary: dict[str, dict] = {}
    bad = 0
    for (name, _tr), t in zip(cases, range(1, len(cases) + 1)):
        s = summary.setdefault(name, {"cases": 0, "rejected": 0, "clauses": {}})
        s["cases"] += 1
        if "REJECT" in v[t]:
            s["rejected"] += 1
            for c in v[t]:
                if c != "REJECT":
                    s["clauses"][c] = s["clauses"].get(c, 0) + 1
    for name, s in summary.items():
        ok = (s["rejected"] == 0) if name == "uncorrupted" else (s["rejected"] == s["cases"])
        bad += 0 if ok else 1
        print(f"{'ok ' if ok else 'BAD'} {name}: {s['rejected']}/{s['cases']} rejected {s['clauses']}")
    with open(os.path.join(VERIF, "selftest", "result.json"), "w") as f:
        json.dump({"what": "single-field corruptions of recorded scan traces vs ScanTrace.tla", "summary": summary}, f, indent=1)
    return 1 if bad else 0


if __name__ == "__main__":
    sys.exit(main())
