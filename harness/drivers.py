"""Input drivers: what gets scanned so that executions can be recorded and validated.
Everything random derives from VERIF_SEED."""
from __future__ import annotations

import ast
import base64
import os
import random

from .common import REPO, SEED

TOKENS = [
    b'"', b"'", b"^", b" ", b"\r\n", b"\r", b"\n", b"(", b")", b"powershell", b"cmd", b" -e ", b" /c ", b"/c ", b" -enc ",
    b"ZQBjAGgAbwAgAGIAZQBlAA==", b"&#65;&#66;&#67;&#68;&#69;", b"&#x41;&#x42;&#x43;&#x44;&#x45;&#x46;", b"chr(65)", b"ChrW(104)",
    b"example.com", b"evil-site.net", b"user@", b"http://", b"https://", b"ftp://",
    b"https://a.example.com/p%41th/../x?q=1#f", b"http://user:pw@10.0.0.1:8080/a/b.exe", b"http://0x7f.1/", b"%41", b"%2F", b"%7e",
    b"1.2.3.4", b"192.168.1.10", b"010.1.1.1", b"C:\\Windows\\System32\\", b"C:\\Users\\..\\a\\file.exe", b"file.exe", b"lib.dll",
    b"/usr/bin/python", b"../etc/passwd/file", b"unescape('", b"')", b'"ab" + "cd"', b"'ev' & 'il.com'",
    b'"a.com".replace("a","evil")', b"Replace('abc','b','x')", b'"x.y" -replace "x","evil"', b'"abc".replace(/b/g,"x")',
    b"reverse('moc.live')", b"StrReverse('exe.daolnwod')", b"createobject(", b"CreateObject('WScript.Shell')",
    b"-bxor 35", b"-bxor", b"FromBase64String('", b"[System.Convert]::FromBase64String('ZHVjaw==')", b"FromHexString('",
    b"aHR0cDovL2V2aWwuY29tL21hbHdhcmUuZXhl", b"atob('", b"Base64Decode('",
    b"6576696c2e636f6d2f6d616c77617265", b"6576696C2E636F6D2F6D616C77617265", b" + ", b";", b",", b"&", b"|",
    b"h\0t\0t\0p\0:\0/\0/\0a\0.\0c\0o\0m\0", b"strlen", b"StrLen", b"GetProcAddress", b"Invoke-Expression", b"IEX", b"iex",
    b"\\\\host.com@SSL\\share\\x.exe", b"\\\\?\\UNC\\1.2.3.4\\c$\\a.dll", b"=", b"\x00", b"MZ", b"for /f %a in ('", b"')",
    b"VirtualAlloc", b"kernel32.dll", b"padding admin@kernel32.dll.example.com", b" user@sub.evil-site.net/usr/share/file.exe",
    b"x = http://a.example.com/file.exe?u=admin@b.example.org", b'xx cmd /c powershell -c "mail ops@sub.example.com now evil-site.net 10.1.2.3"',
    b'pad "D:\\tools\\cmd.exe" /c ping evil-site.example.com -n 3', b"copy /srv/www/blog-site.example.com today", b"wscript.shell", b"HKEY_LOCAL_MACHINE", b"bitcoin", b"Mozilla/5.0",
]


# inputs that exhibit the recorded known findings (so that each run reports them, and only them, as KNOWN-FINDING)
KNOWN_TRIGGERS = [
    b"zzzzzzzzzzzzzzzzzzzzzzzzzzzzzz;powershell x",          # K06/K06b: end = len - start < start
    b"p^owershell/e QQBCAA==",                               # K08: rewritten child longer than the de-escaped parent
]


def keyword_orders(rng: random.Random, n: int) -> list[bytes]:
    """Texts in which several words of ONE shipped keyword list occur, in an order other than the list's own (a searcher
    reports its hits grouped by keyword, so the engine's ordering of hits is what puts them in text order), mixed with
    words of other lists and with other indicators."""
    import multidecoder

    lists = []
    for sub, _dirs, files in os.walk(os.path.join(os.path.dirname(multidecoder.__file__), "keywords")):
        for fn in sorted(files):
            with open(os.path.join(sub, fn), "rb") as f:
                words = sorted({w for w in f.read().splitlines() if w and len(w) < 40})
            if len(words) >= 2:
                lists.append(words)
    out = []
    glue = [b" ", b"; ", b" notepad; ", b"(", b" http://evil-site.net/a ", b"\n", b" = "]
    for i in range(n):
        words = lists[i % len(lists)]
        a = rng.randrange(len(words) - 1)
        pick = [words[j] for j in sorted(rng.sample(range(len(words)), min(len(words), rng.randint(2, 4))), reverse=True)]
        if i % 3 == 0:
            pick = [words[a + 1], words[a], words[a + 1]]          # later word, earlier word, later word again
        if i % 5 == 0:
            pick.insert(1, rng.choice(rng.choice(lists)))
        out.append(rng.choice([b"", b"call "]) + b"".join(w + rng.choice(glue) for w in pick) + b"end")
    return out


# nothing in these is decoded: every hit is a context or a leaf, found by the one search pass over the input itself
CONTEXT_ONLY = [
    b'Set shell_obj = CreateObject("8.8.8.8 evil.exe 1.2.3.4")',
    b"x = CreateObject('10.1.2.3 kernel32.dll tool.exe admin@example.org')  run.exe",
    b"copy \\\\fileserver.example.com\\share\\setup.exe C:\\Users\\bob\\AppData\\evil.dll now",
    b"visit http://evil-site.net/a/b/payload.exe?x=1 or ftp://10.0.0.1/lib.dll today",
    b"CreateObject(CreateObject(a.exe b.dll) c.exe) d.dll",
    b"/usr/local/bin/tool.exe and /opt/x/libfoo.dll and plain.exe",
    b"mail admin@evil-site.net about C:\\Windows\\System32\\cmd.exe /c",
    b"GetProcAddress kernel32.dll VirtualAlloc notepad.exe 192.168.1.10",
]


def parts_with_payload() -> list[bytes]:
    """Hits that come with decoder-supplied parts (a URL, a UNC path) whose part holds an encoded blob, itself holding another:
    with small depth limits the budget ends at, just above or just below the parts."""
    inner = b"fetch 10.20.30.40 and http://evil-site.net/x.exe now"
    l1 = base64.b64encode(inner)
    l2 = base64.b64encode(b"run " + l1 + b" quietly")
    out = []
    for blob in (l1, l2, inner.hex().encode(), base64.b64encode(b"see " + inner.hex().encode() + b" ok")):
        q = blob.replace(b"+", b"%2B").replace(b"/", b"%2F").replace(b"=", b"%3D")
        out += [b"get http://example.com/a?x=" + q + b" now", b"get https://u:p@host.example.org:8080/p/" + q + b"#" + q + b" now",
                b"open \\\\files.example.com\\share\\" + blob.replace(b"/", b"_").replace(b"+", b"-") + b".dll now",
                b"cmd /c start http://example.com/?d=" + q]
    return out


def twice() -> list[bytes]:
    """The same encoded blob two or three times in one input (equal decoded texts are searched one straight after the other),
    and byte arrays / calls with a literal xor key in the same text."""
    out = []
    payloads = CONTEXT_ONLY[:5] + [b"beacon 8.8.8.8 with evil.exe to http://evil-site.net/x.dll now"]
    for i, p in enumerate(payloads):
        for e in (enc_b64, enc_hex, enc_atob, enc_xml):
            if e is enc_xml and i % 2:
                continue
            blob = e(p + b" " * (-len(p) % 3))
            out.append(b"first: " + blob + b" ; second: " + blob + b" ;")
        blob = enc_b64(p + b" " * (-len(p) % 3))
        out.append(blob + b"\n" + enc_hex(p) + b"\n" + blob + b"\n" + blob)
    plain = b"duck goes quack with evil.exe from 10.1.2.3 " * 12
    for key in (35, 7, 255, 300, 999):
        arr = b", ".join(b"%d" % ((c ^ key) & 0xFF) for c in plain)
        out.append(b"$b = " + arr + b" ; $b | % { $_ -bxor " + b"%d" % key + b" }")
        out.append(b"[System.Convert]::FromBase64String('" + base64.b64encode(bytes((c ^ key) & 0xFF for c in plain[:90])) + b"') -bxor %d" % key)
        out.append(b"FromHexString('" + bytes((c ^ key) & 0xFF for c in plain[:60]).hex().encode() + b"') -xor %d" % key)
    return out


def xor_state_inputs() -> list[bytes]:
    """Two blobs side by side: one wraps (a levels deep) a text with a literal xor key, the other wraps (b levels deep) a byte
    array xor-ed with a key held in a variable.  What is reported for one must not depend on whether, when or in which order
    the other was searched (depth limits between a and b, second scans, later sessions)."""
    plain = b"duck goes quack " * 34
    out = []
    for key, a, b in ((35, 2, 1), (35, 1, 2), (7, 3, 1), (200, 2, 2)):
        lit = b"foreach ($b in $payload) { $out += [char]($b -bxor %d) }   " % key
        arr = b"$k = Get-Key; $bytes = " + b", ".join(b"0x%02x" % (c ^ key) for c in plain) + b" ; $bytes | % { $_ -bxor $k }   "
        first, second = lit, arr
        for _ in range(a):
            first = b"powershell -nop [Text.Encoding]::ASCII.GetString('" + base64.b64encode(first) + b"')  "
        for _ in range(b):
            second = b"iex ([Convert]::ToString('" + base64.b64encode(second) + b"'))  "
        out.append(b"<a>" + first + b"</a> <b>" + second + b"</b>")
    return out


def deep_paren_sweep() -> list[bytes]:
    """A call whose argument nests parentheses nearly as deep as the interpreter's recursion limit, inside one decoding layer:
    what a decoder makes of it must not depend on how deep the Python stack already is when it is called."""
    out = []
    for d in range(900, 1000, 4):
        out.append(b"x = atob('" + base64.b64encode(b"Set o = CreateObject(" + b"(" * d + b"1" + b")" * d + b") ' end") + b"');")
    return out


def rng_for(tag: str) -> random.Random:
    return random.Random(f"{SEED}:{tag}")


def token_soup(rng: random.Random, n: int, maxtok: int = 8):
    for _ in range(n):
        yield b"".join(rng.choice(TOKENS) for _ in range(rng.randint(1, maxtok)))


def repo_literals() -> list[bytes]:
    """Every bytes literal in the repository's tests (inputs the maintainers care about)."""
    out: set[bytes] = set()
    root = os.path.join(REPO, "tests")
    for dp, _dn, fns in os.walk(root):
        for fn in fns:
            if not fn.endswith(".py"):
                continue
            try:
                with open(os.path.join(dp, fn), "rb") as f:
                    tree = ast.parse(f.read())
            except SyntaxError:
                continue
            for node in ast.walk(tree):
                if isinstance(node, ast.Constant) and isinstance(node.value, bytes) and 2 <= len(node.value) <= 4096:
                    out.add(node.value)
    return sorted(out)


INJECT = [b"^", b'"', b"(", b")", b"\r", b"\x00", b"%", b"'", b" ", b"\r\n"]


def mutate(rng: random.Random, data: bytes) -> bytes:
    op = rng.randrange(7)
    if not data:
        return rng.choice(INJECT)
    i = rng.randrange(len(data) + 1)
    j = rng.randrange(len(data) + 1)
    i, j = min(i, j), max(i, j)
    if op == 0:
        return data[:i]
    if op == 1:
        return data[:i] + data[i:j] + data[i:j] + data[j:]
    if op == 2:
        return data[:i] + data[j:]
    if op == 3:
        return data[:i] + data[i:j].swapcase() + data[j:]
    if op == 4:
        return data[:i] + rng.choice(INJECT) + data[i:]
    if op == 5:
        return data[j:] + data[:j]
    return data[:i] + rng.choice(TOKENS) + data[i:]


# --- a few encoders used to build nested inputs (the systematic version lives in layers.py) ----


def enc_b64(p: bytes) -> bytes:
    return base64.b64encode(p)


def enc_hex(p: bytes) -> bytes:
    return p.hex().encode()


def enc_xml(p: bytes) -> bytes:
    return b"".join(b"&#%d;" % c for c in p)


def enc_utf16(p: bytes) -> bytes:
    return p.decode("latin-1").encode("utf-16-le")


def enc_atob(p: bytes) -> bytes:
    return b"atob('" + base64.b64encode(p) + b"')"


def enc_rev(p: bytes) -> bytes:
    return b"reverse('" + p[::-1] + b"')"


ENCODERS = [enc_b64, enc_hex, enc_xml, enc_utf16, enc_atob, enc_rev]
PAYLOADS = [b"http://evil-site.net/malware.exe", b"cmd /c powershell -e ZQBjAGgAbwAgAGIAZQBlAA==", b"1.2.3.4 and example.com",
            b"C:\\Users\\Public\\payload.exe GetProcAddress", b"user@example.com via https://a.example.com/x?y=1"]


def nested(rng: random.Random, n: int, maxdepth: int = 4):
    for _ in range(n):
        p = rng.choice(PAYLOADS)
        for _d in range(rng.randint(1, maxdepth)):
            e = rng.choice(ENCODERS)
            if e is enc_rev and (b"'" in p or b'"' in p):
                e = enc_b64
            p = e(p)
            if len(p) > 3000:
                break
        yield rng.choice([b"", b"x = ", b"; "]) + p + rng.choice([b"", b" ;", b"\n"])
