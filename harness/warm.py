"""Pre-compute the specification-only TLC runs used by the quick tier (cache keyed by spec hash)."""
from __future__ import annotations

import sys
import time

from . import engine
from .common import Result


def main() -> int:
    t0 = time.time()
    res = Result("warm", "quick", "model_checking")
    engine.model_check(res, ["q"])
    engine.non_vacuity(res, ["Laminar", "NoDoubleReport", "Conforms"])
    print(f"warm: spec-only TLC runs cached in {time.time() - t0:.0f} s")
    return 0


if __name__ == "__main__":
    sys.exit(main())
