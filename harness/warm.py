"""Pre-compute the specification-only TLC runs used by the quick tier (cache keyed by spec hash)."""
from __future__ import annotations

import sys
import time
from concurrent.futures import ThreadPoolExecutor

from . import engine, tlc
from .common import Result


def main() -> int:
    t0 = time.time()
    res = Result("warm", "quick", "model_checking")
    jobs = []
    jobs.append(lambda: engine.model_check(res, ["q", "h3"]))
    jobs.append(lambda: engine.non_vacuity(res, ["Laminar", "NoDoubleReport", "Conforms"]))
    from . import props_keyword, props_tree

    jobs.append(lambda: props_tree.model_check(res, ["q"]))
    jobs.append(lambda: tlc.must_pass(tlc.run("KeywordMC", props_keyword.cfg("q"), cache=True, timeout=3000, heap="12g"), "KeywordMC[q]"))
    try:
        from . import warm_more

        jobs += warm_more.jobs(res)
    except ImportError:
        pass
    with ThreadPoolExecutor(3) as ex:
        for f in [ex.submit(j) for j in jobs]:
            f.result()
    print(f"warm: spec-only TLC runs cached in {time.time() - t0:.0f} s")
    return 0


if __name__ == "__main__":
    sys.exit(main())
