"""Which module decides which property."""
from __future__ import annotations

import json


def run(prop: str, tier: str) -> int:
    if prop in ("C03", "C04", "C05", "C06", "C07", "C08"):
        from . import props_engine

        return props_engine.run(prop, tier)
    if prop in ("C19", "C20"):
        from . import props_tree

        return props_tree.run(prop, tier)
    if prop == "C17":
        from . import props_keyword

        return props_keyword.run(prop, tier)
    if prop == "C18":
        from . import props_registry

        return props_registry.run(prop, tier)
    if prop == "C09":
        from . import props_repro

        return props_repro.run(prop, tier)
    if prop in ("C13", "C14", "C15"):
        from . import props_decode

        return props_decode.run(prop, tier)
    if prop == "C16":
        from . import props_shell

        return props_shell.run(prop, tier)
    if prop in ("C10", "C11", "C12"):
        from . import props_net

        return props_net.run(prop, tier)
    if prop == "C01":
        from . import props_total

        return props_total.run(prop, tier)
    if prop == "C02":
        from . import props_layers

        return props_layers.run(prop, tier)
    raise SystemExit(f"no check registered for {prop}")


def replay(prop: str, path: str) -> int:
    """Re-run the case of a replay file against the current tree and print what the check sees."""
    from . import replayer

    with open(path) as f:
        return replayer.replay(prop, json.load(f))
