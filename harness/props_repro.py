"""C09: reproducibility.  Repro.tla model-checked (asis must fail); ReproTrace.tla validates recorded histories."""
from __future__ import annotations

import hashlib
import json
import os
import subprocess
from concurrent.futures import ThreadPoolExecutor

from . import drivers, tlc
from .common import NCPU, PY, SRC, VERIF, MachineryError, Result, scratch, use_repo


def tie_inputs(rng) -> list[bytes]:
    """Inputs on which the order of registry entries can matter: words listed in several keyword files,
    or in several letter cases, found by reading the shipped keyword files."""
    import multidecoder

    kdir = os.path.join(next(iter(multidecoder.__path__)), "keywords")
    groups: dict[bytes, set] = {}
    for dp, _d, fns in os.walk(kdir):
        for fn in fns:
            with open(os.path.join(dp, fn), "rb") as f:
                for w in set(f.read().splitlines()):
                    if w:
                        groups.setdefault(w.lower(), set()).add((fn, w))
    ties = sorted(k for k, v in groups.items() if len(v) > 1)
    rng.shuffle(ties)
    out = []
    for w in ties[:40]:
        variants = sorted({v[1] for v in groups[w]})
        out.append(b"call " + variants[0] + b" then " + variants[-1] + b"; " + w.upper())
    out.append(b" ".join(ties[:25]))
    return out


def custom_dir(root: str) -> str:
    os.makedirs(os.path.join(root, "sub", "deep"))
    os.makedirs(os.path.join(root, "other"))
    for d in ("only/zz", "only/aa", "only/mm/deeper"):         # a level with nothing but sub-directories
        os.makedirs(os.path.join(root, d))
        with open(os.path.join(root, d, d.split("/")[1] + "-list.words"), "wb") as f:      # same words, a different label per directory
            f.write(b"strlen\nkernel32\n" + d.encode() + b"\n")
    files = {"a.words": b"#tag\nstrlen\nStrLen\nSTRLEN\nGetProcAddress\n; note\n", "sub/b.words": b"strlen\ngetprocaddress\n",
             "sub/deep/a.words": b"StrLen\nevil\n", "other/c.words": b"evil\nEvil\nstrlen\n", "z.words": b"evil\n"}
    for rel, raw in files.items():
        with open(os.path.join(root, rel), "wb") as f:
            f.write(raw)
    return root


def worker(job: dict, seed: str) -> list[dict]:
    env = dict(os.environ, PYTHONHASHSEED=seed)
    p = subprocess.run([PY, os.path.join(VERIF, "harness", "repro_worker.py")], input=json.dumps(job).encode(),
                       capture_output=True, env=env, timeout=1200)
    if p.returncode != 0:
        raise MachineryError("repro worker failed:\n" + p.stderr.decode(errors="replace")[-2000:])
    return [json.loads(ln) for ln in p.stdout.decode().splitlines() if ln.strip()]


def run(prop: str, tier: str) -> int:
    use_repo()
    res = Result(prop, tier, "model_checking")
    res.assumptions += ["result trees are compared through a SHA-256 digest of their full projection",
                        "thread interleavings are those the CPython scheduler produces with switch interval 1e-6 (sampled, not enumerated)",
                        "directory enumeration order is simulated by replacing os.walk inside the worker process"]
    r = tlc.run("Repro", "Repro_fixed.cfg", cache=True, timeout=3000, heap="12g")
    tlc.must_pass(r, "Repro[fixed]")
    res.add("states", r.distinct)
    res.add("transitions", r.generated)
    res.stage("Repro[fixed]", dict(r.summary(), cached=r.cached, invariant="Reproducible"))
    r = tlc.run("Repro", "Repro_asis.cfg", cache=True, timeout=3000)
    tlc.must_violate(r, ["Reproducible"], "Repro[asis]")
    res.stage("Repro[Variant=asis]", dict(r.summary(), expected_violation="Reproducible"))

    rng = drivers.rng_for("repro")
    work = scratch("repro")
    cdir = custom_dir(os.path.join(work, "custom"))
    inputs = tie_inputs(rng) + [b"strlen StrLen STRLEN evil Evil GetProcAddress getprocaddress"]
    # same-span hits from different decoder modules (their order in the registry decides which one nests in which)
    inputs += [b"x = cmd.exe", b"run powershell.exe", b"get http://a.example.com/x.exe", b"\\\\host.example.com\\share\\cmd.exe", b"start C:\\Windows\\System32\\cmd.exe",
               b"strlen #tag ; note GetProcAddress"]
    plain = (b"This program cannot be run in DOS mode. " * 14)[:520]
    for key in (b"\x21\x43\x65", b"\x10\x20\x30\x40"):       # byte arrays whose xor key has to be guessed (ties among candidate keys)
        inputs.append(b",".join(b"%d" % (c ^ key[i % len(key)]) for i, c in enumerate(plain)) + b" -bxor $key")
    inputs.append(b",".join(b"%d" % (i % 2) for i in range(700)) + b" -bxor $k")
    inputs += list(drivers.token_soup(rng, 25 if tier == "quick" else 300))
    inputs += drivers.repo_literals()[:: 6 if tier == "quick" else 1]
    hx = [x.hex() for x in inputs]
    seeds = ["0", "1", "2", "3", "17", "4242"] if tier == "quick" else [str(s) for s in range(24)] + ["random", "random"]
    cfgs = {"default": "", "custom": cdir, "inc-4": {"include": ["shell", "filename", "network", "path"]},
            "inc-3-custom": {"dir": cdir, "include": ["filename", "shell", "vba"]}}
    jobs = []
    for i, s in enumerate(seeds):
        jobs.append(({"src": SRC, "proc": f"seed{s}-{i}", "walk": (i * 7 + 1) if i % 2 else -1, "cfgs": cfgs, "inputs": hx,
                      "ks": [10] if tier == "quick" else [10, 1, 2], "mode": "seq"}, s))
    # the same configurations built in opposite orders within one process each (a configuration is identified by its
    # contents: keyword directory, include list, exclude list), and twice in a row
    rich = [x.hex() for x in drivers.PAYLOADS + list(drivers.nested(rng, 6, 3)) + [b"cmd /c p^owershell -e ZQBjAGgAbwAgAGIAZQBlAA== & echo 6576696c2e636f6d2f6d616c77617265"]]
    cfgs2 = {"no-network": {"exclude": ["network"]}, "default": "", "only-b64-hex": {"include": ["base64", "hex"]},
             "custom-no-shell": {"dir": cdir, "exclude": ["shell"]}, "custom": cdir, "default-again": ""}
    alias = {"default-again": "default"}
    for rev in (False, True):
        jobs.append(({"src": SRC, "proc": f"cfgs-{'rev' if rev else 'fwd'}", "walk": -1, "cfgs": cfgs2, "inputs": rich + hx[:30], "ks": [10],
                      "mode": "seq", "reverse": rev}, "5"))
    jobs.append(({"src": SRC, "proc": "thr", "walk": 5, "cfgs": {"default": ""}, "inputs": hx[:60], "ks": [10, 2],
                  "mode": "threads", "threads": 8, "n": 25 if tier == "quick" else 200}, "7"))
    jobs.append(({"src": SRC, "proc": "thr2", "walk": 9, "cfgs": {"custom": cdir}, "inputs": hx[:60], "ks": [10, 1],
                  "mode": "threads", "threads": 8, "n": 25 if tier == "quick" else 200}, "8"))
    jobs.append(({"src": SRC, "proc": "reuse", "walk": 3, "cfgs": cfgs, "inputs": hx, "ks": [10, 0, 1, 3],
                  "mode": "reuse", "n": 150 if tier == "quick" else 1500}, "9"))
    # address re-use histories: equally long texts, one with a literal xor key / an encoded argument / a keyword, one without
    b64 = b"FromBase64String('ZHVjayBnb2VzIHF1YWNr')"
    arr = b",".join(b"%d" % (c ^ 35) for c in plain)
    pairs = [(b"$a -bxor 35 ; " + b64, b"$a -bxox 35 ; " + b64), (b"$a -bxox 35 ; " + b64, b"$a -bxor 35 ; " + b64),
             (arr + b" -bxor 35 ", arr + b" -bxoz 35 "), (arr + b" -bxoz 35 ", arr + b" -bxor 35 "),
             (b"FromHexString('6475636b6475636b6475636b') -xor 7", b"FromHexString('6475636b6475636b6475636b') -xoz 7"),
             (b"get http://evil-site.net/a.exe now ok", b"get hxxp://evil-site.net/a.exe now ok")]
    call = b"$p = [System.Convert]::FromBase64String('R1ZASERGQEg=')\n"
    for size in (96, 200, 400, 3000, 70000):      # a text with a literal key and nothing that is decoded, then one that decodes and has no key
        pairs.append((b"$q = $r -bxor 35 # note\n".ljust(size, b" "), (call + b"# note\n").ljust(size, b" ")))
        pairs.append(((call + b"# note\n").ljust(size, b" "), (call + b"$q = $r -bxor 35 #\n").ljust(size, b" ")))
    for a_, b_ in pairs:
        assert len(a_) == len(b_)
    hx_pairs = [(a_.hex(), b_.hex()) for a_, b_ in pairs]
    jobs.append(({"src": SRC, "proc": "addr", "walk": -1, "cfgs": {"default": ""}, "inputs": [], "ks": [10], "mode": "addr", "pairs": hx_pairs}, "11"))
    jobs.append(({"src": SRC, "proc": "addr-fresh", "walk": -1, "cfgs": {"default": ""}, "inputs": [b_.hex() for _a, b_ in pairs], "ks": [10], "mode": "seq"}, "11"))
    with ThreadPoolExecutor(NCPU) as ex:
        outs = list(ex.map(lambda j: worker(*j), jobs))
    events = [e for o in outs for e in o]
    reused = [e for e in events if e.get("ev") == "Note"]
    res.coverage["address_reuse_histories"] = {"pairs": len(reused), "allocator_reused_the_address": sum(1 for e in reused if e["address_reused"])}
    events = [e for e in events if e.get("ev") != "Note"]
    for e in events:      # "default-again" is the default configuration built a second time in the same process
        if e.get("ev") == "NewScanner" and e["cfg"] in alias:
            e["cfg"] = alias[e["cfg"]]
    # CLI stdout across hash seeds
    cli_inputs = inputs[: 4 if tier == "quick" else 20]
    cjobs = []
    for s in seeds[:4] if tier == "quick" else seeds[:12]:
        for xi, x in enumerate(cli_inputs):
            for mode in (["--json"], []):
                cjobs.append((s, xi, x, mode))

    def cli(j):
        s, xi, x, mode = j
        env = dict(os.environ, PYTHONHASHSEED=s if s != "random" else "12345", PYTHONPATH=SRC, PYTHONIOENCODING="utf-8")
        p = subprocess.run([PY, "-m", "multidecoder"] + mode, input=x, capture_output=True, env=env, timeout=300)
        return hashlib.sha256(p.stdout).hexdigest() if p.returncode == 0 else "EXC"

    with ThreadPoolExecutor(NCPU) as ex:
        couts = list(ex.map(cli, cjobs))
    started = set()
    for (s, xi, x, mode), dg in zip(cjobs, couts):
        proc = f"cli-{s}-{xi}-{'json' if mode else 'text'}"
        events.append({"ev": "StartProc", "proc": proc, "seed": s, "walk": -1})
        events.append({"ev": "NewScanner", "proc": proc, "inst": proc, "cfg": "default"})
        events.append({"ev": "Begin", "thread": proc, "inst": proc, "input": x.hex(), "k": 10, "view": "cli" + "".join(mode)})
        events.append({"ev": "End", "thread": proc, "digest": dg})
    # one history per input: the configuration events plus every Begin/End of that input (scans of different
    # inputs never share a key, so the split loses nothing and keeps each history short)
    setup_events = [e for e in events if e["ev"] in ("StartProc", "NewScanner")]
    by_input: dict[str, list] = {}
    open_begin: dict[str, str] = {}
    for e in events:
        if e["ev"] == "Begin":
            open_begin[e["thread"]] = e["input"]
            by_input.setdefault(e["input"], []).append(e)
        elif e["ev"] == "End":
            by_input.setdefault(open_begin.pop(e["thread"], "?"), []).append(e)
    hist = [(x, setup_events + evs) for x, evs in sorted(by_input.items())]
    path = os.path.join(work, "hist.ndjson")
    with open(path, "w") as f:
        for x, evs in hist:
            f.write(json.dumps({"input": x, "events": evs}) + "\n")
    r = tlc.run("ReproTrace", "SPECIFICATION Spec\nCHECK_DEADLOCK FALSE\n", env={"TRACE_FILE": path}, timeout=3000, heap="12g")
    v = r.verdicts()
    judged = [t for t, cl in v.items() if "ACCEPT" in cl or "REJECT" in cl]
    if not r.completed or len(judged) != len(hist):
        raise MachineryError(f"ReproTrace judged {len(judged)}/{len(hist)} histories\n" + r.diagnosis())
    res.add("trace_states", r.distinct)
    ends = [e for e in events if e["ev"] == "End"]
    import re

    ats = {int(a): int(b) for a, b in re.findall(r'<<"AT", (\d+), (\d+)>>', r.out)}
    for t, cl in v.items():
        if "REJECT" in cl:
            clause = [c for c in cl if c != "REJECT"][0]
            evs = hist[t - 1][1]
            at = ats.get(t, 1)
            e = evs[at - 1]
            begin = next((b for b in reversed(evs[:at]) if b["ev"] == "Begin" and b["thread"] == e.get("thread")), {})
            res.violation(f"ReproTrace rejects the history of input {bytes.fromhex(hist[t - 1][0])!r} at event {at} ({clause}): "
                          f"thread {e.get('thread')} k={begin.get('k')} view={begin.get('view')} digest differs from the first one recorded",
                          {"clause": clause, "view": begin.get("view")},
                          {"kind": "repro-history", "event_index": at, "event": e, "begin": begin, "input_hex": hist[t - 1][0]})
    res.coverage["traces_validated_against_impl"] = len(hist)
    res.coverage["events"] = len(events)
    res.coverage["evaluations"] = len(ends)
    res.coverage["distinct_nontrivial"] = len({(b["input"], b["k"], b["view"]) for b in events if b["ev"] == "Begin"})
    res.coverage["rule"] = ("one history of StartProc/NewScanner/Begin/End events from: one process per hash seed (half of them with permuted "
                            "directory enumeration), default and a custom keyword directory with duplicated / case-variant words, 8 threads "
                            "sharing one scanner, a re-used scanner vs fresh ones, CLI stdout per seed; evaluations = completed scans; "
                            "distinct = distinct (input, depth, view) keys")
    res.sample({"hash_seeds": seeds, "inputs": len(inputs), "tie_input": inputs[0].decode("latin-1")})
    return res.finish()
