"""Shared plumbing: locating the implementation, scratch space, evidence, known findings, verdicts."""
from __future__ import annotations

import atexit
import json
import os
import shutil
import sys
import tempfile
import time

VERIF = os.path.dirname(os.path.dirname(os.path.abspath(__file__)))
SPEC = os.path.join(VERIF, "spec")
T0 = time.time()          # (about) when this process started
REPO = os.environ.get("VERIF_REPO", "/repo")
SRC = os.path.join(REPO, "src")
PY = "/venv/bin/python"
SEED = int(os.environ.get("VERIF_SEED", "0") or 0)
NCPU = os.cpu_count() or 4


def use_repo() -> None:
    """Make `import multidecoder` resolve to the working tree under test (never a cached copy)."""
    if SRC not in sys.path[:1]:
        sys.path.insert(0, SRC)
    for name in [m for m in sys.modules if m == "multidecoder" or m.startswith("multidecoder.")]:
        del sys.modules[name]
    import multidecoder  # noqa: F401

    got = os.path.dirname(os.path.abspath(multidecoder.__file__))
    want = os.path.join(SRC, "multidecoder")
    if os.path.realpath(got) != os.path.realpath(want):
        raise RuntimeError(f"multidecoder imported from {got}, expected {want}")


_scratch_root = None


def scratch(prefix: str = "s") -> str:
    """A fresh directory under a per-process scratch root that is removed at exit."""
    global _scratch_root
    if _scratch_root is None:
        base = os.environ.get("VERIF_SCRATCH") or tempfile.gettempdir()
        _scratch_root = tempfile.mkdtemp(prefix="verif-", dir=base)
        atexit.register(shutil.rmtree, _scratch_root, True)
    return tempfile.mkdtemp(prefix=prefix + "-", dir=_scratch_root)


class MachineryError(Exception):
    """Something in the verification machinery itself failed (exit status 2)."""


# ------------------------------------------------------------------------------------------
# known findings


def load_findings() -> list[dict]:
    path = os.path.join(VERIF, "known_findings.json")
    if not os.path.exists(path):
        return []
    with open(path) as f:
        return json.load(f)["findings"]


def match_finding(prop: str, facts: dict) -> dict | None:
    """A violation is a known finding only if an entry of kind 'known' for this property matches
    every key of its `match` predicate against the facts the check extracted for the violation.
    A list in `match` means "one of"."""
    for f in load_findings():
        if f.get("kind") != "known" or prop not in f.get("properties", [f.get("property")]):
            continue
        ok = True
        for k, v in f["match"].items():
            got = facts.get(k)
            if isinstance(v, list):
                if got not in v:
                    ok = False
            elif got != v:
                ok = False
        if ok:
            return f
    return None


# ------------------------------------------------------------------------------------------
# results


class Result:
    """Accumulates what a check run covered and found; writes evidence; decides the exit status."""

    def __init__(self, prop: str, tier: str, level: str):
        self.prop = prop
        self.tier = tier
        self.level = level
        self.t0 = time.time()
        self.coverage: dict = {"samples": []}
        self.assumptions: list[str] = []
        self.violations: list[dict] = []
        self.known: dict[str, int] = {}
        self.notes: list[str] = []

    # coverage counters -------------------------------------------------------------------
    def add(self, key: str, n: int) -> None:
        self.coverage[key] = int(self.coverage.get(key, 0)) + int(n)

    def sample(self, s, limit: int = 6) -> None:
        if len(self.coverage["samples"]) < limit:
            self.coverage["samples"].append(s)

    def stage(self, name: str, info: dict) -> None:
        self.coverage.setdefault("stages", {})[name] = info

    # violations --------------------------------------------------------------------------
    def violation(self, what: str, facts: dict, replay: dict) -> None:
        """Report one violating case.  `facts` identify its site/shape for known-finding matching."""
        f = match_finding(self.prop, facts)
        if f is not None:
            key = f["id"]
            self.known[key] = self.known.get(key, 0) + 1
            return
        rec = {"property": self.prop, "what": what, "facts": facts, "replay": replay}
        self.violations.append(rec)

    def finish(self) -> int:
        # evidence/ describes runs on /repo; runs of my own tooling against another tree (VERIF_REPO=<scratch copy>) must not overwrite it
        evdir = os.path.join(VERIF, "evidence") if os.path.realpath(REPO) == "/repo" else os.path.join(VERIF, ".cache", "evidence-other-tree")
        os.makedirs(evdir, exist_ok=True)
        findings = {f["id"]: f for f in load_findings()}
        for key, n in sorted(self.known.items()):
            print(f"KNOWN-FINDING: property={self.prop} {findings[key]['what']} [{key}; {n} case(s) this run]")
        paths = []
        if self.violations:
            d = os.path.join(VERIF, "replays", self.prop)
            os.makedirs(d, exist_ok=True)
            seen = set()
            for v in self.violations:
                sig = json.dumps(v["facts"], sort_keys=True)
                if sig in seen and len(paths) >= 3:
                    continue
                seen.add(sig)
                if len(paths) >= 10:
                    break
                p = os.path.join(d, f"{self.tier}-{SEED}-{len(paths)}.json")
                with open(p, "w") as f:
                    json.dump(v, f, indent=1, default=repr)
                paths.append(p)
                print(f"VIOLATION property={self.prop} replay={p}")
                print(f"  what: {v['what']}")
        cov = dict(self.coverage)
        cov.setdefault("evaluations", 0)
        cov.setdefault("distinct_nontrivial", 0)
        cov["known_findings_seen"] = self.known
        if self.notes:
            cov["notes"] = self.notes
        ev = {
            "property_id": self.prop,
            "tier": self.tier,
            "seed": SEED,
            "level": self.level,
            "coverage": cov,
            "assumptions": self.assumptions,
            "wall_s": round(time.time() - self.t0, 2),
            "violations": len(self.violations),
        }
        with open(os.path.join(evdir, f"{self.prop}.json"), "w") as f:
            json.dump(ev, f, indent=1, default=repr)
        status = 1 if self.violations else 0
        print(
            f"{self.prop} {self.tier}: {'FAIL' if status else 'ok'} "
            f"({len(self.violations)} violation(s), {sum(self.known.values())} known-finding case(s), "
            f"{ev['wall_s']} s)"
        )
        return status
