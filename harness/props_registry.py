"""C18: the registry.  Registry.tla / RegistryMC.tla model-checked; RegistryTrace.tla on the real build_registry."""
from __future__ import annotations

import ast
import json
import os
import random

from . import drivers, tlc
from .common import SRC, MachineryError, Result, scratch, use_repo


def marked_by_ast() -> dict[str, list[str]]:
    """Ground truth for 'marked for registration': module-level functions decorated with @decoder,
    found by parsing the sources (independent of importing them)."""
    ddir = os.path.join(SRC, "multidecoder", "decoders")
    out: dict[str, list[str]] = {}
    for fn in sorted(os.listdir(ddir)):
        if not fn.endswith(".py") or fn == "__init__.py":
            continue
        with open(os.path.join(ddir, fn), "rb") as f:
            tree = ast.parse(f.read())
        names = []
        for node in tree.body:
            if isinstance(node, ast.FunctionDef):
                for d in node.decorator_list:
                    if (isinstance(d, ast.Name) and d.id == "decoder") or (isinstance(d, ast.Attribute) and d.attr == "decoder"):
                        names.append(node.name)
        out[fn[:-3]] = names
    return out


def read_dir(directory: str) -> list[dict]:
    files = []
    for dp, _dn, fns in os.walk(directory):
        for fn in fns:
            with open(os.path.join(dp, fn), "rb") as f:
                files.append({"name": fn, "raw": list(f.read()), "dir": os.path.relpath(dp, directory)})
    return files


def observe(registry, marked, inc, exc, files, *, check_fns=True, check_kw=True, failed=None) -> dict:
    got_fns, got_kw = [], []
    for e in registry or []:
        if hasattr(e, "args") and hasattr(e, "func"):
            words = list(e.args[1])
            applied = []
            for w in words[:2] + words[-1:]:        # the searcher applied to texts that hold one of its words between blanks
                try:
                    applied += [[h.type, list(h.value)] for h in e(b"; " + w + b" ;")]
                except Exception as ex:  # noqa: BLE001
                    applied.append(["raised:" + type(ex).__name__, []])
            got_kw.append({"label": e.args[0], "words": [list(w) for w in words], "applied": applied})
        else:
            got_fns.append([e.__module__.rsplit(".", 1)[-1], e.__name__])
    return {
        "kind": "build",
        "marked": [{"m": m, "fs": fs} for m, fs in sorted(marked.items())],
        "incNone": inc is None, "inc": list(inc or []), "excNone": exc is None, "exc": list(exc or []),
        "files": files, "gotFns": got_fns, "gotKw": got_kw, "checkFns": check_fns, "checkKw": check_kw,
        "failed": failed or [],
    }


WORDS = [b"\xc3\x85ngstr\xc3\xb6m", b"a\x0bb", b"x\x0cy", b"p\x1cq\x1dr\x1es", b"\xd1\x85", b"tab\there", b"alpha", b"Beta", b"x y", b"1234", b"a-b", b"\xe9t\xe9", b"alpha", b"ALPHA", b"#comment", b"; note", b"//x", b" lead", b"trail "]


def random_dir(rng: random.Random, root: str) -> None:
    os.makedirs(root)
    dirs = [root]
    for d in range(rng.randint(0, 2)):
        p = os.path.join(rng.choice(dirs), rng.choice([f"d{d}", f".d{d}", f"d[{d}]", f"d{d}*x", f"d{d} v?"]))
        os.makedirs(p, exist_ok=True)
        dirs.append(p)
    for i in range(rng.randint(0, 4)):
        name = rng.choice(["api", "net.strings", "x", "README", "k%d" % i, ".hidden", ".k%d.list" % i, "a[1]", "w*", "q?.txt"])
        lines = [rng.choice(WORDS + [b"", b""]) for _ in range(rng.randint(0, 5))]
        term = rng.choice([b"\n", b"\r\n", b"\r"])
        raw = term.join(lines) + (term if rng.random() < 0.6 else b"")
        with open(os.path.join(rng.choice(dirs), name), "wb") as f:
            f.write(raw)


def run(prop: str, tier: str) -> int:
    use_repo()
    import multidecoder
    from multidecoder.multidecoder import Multidecoder
    from multidecoder.registry import build_registry, get_analyzers, get_keywords

    res = Result(prop, tier, "model_checking")
    res.assumptions += ["'marked for registration' is taken from an ast scan of decoders/*.py for @decoder",
                        "an empty include list is read by the code as 'no include list'; not asserted on (DESIGN section 7)"]
    for part, cfgname in (("mods", "RegistryMC.cfg"), ("files", "RegistryMC_files.cfg")):
        r = tlc.run("RegistryMC", cfgname, cache=True, timeout=3000, heap="12g")
        tlc.must_pass(r, f"RegistryMC[{part}]")
        res.add("states", r.distinct)
        res.add("transitions", r.generated)
        res.stage(f"RegistryMC[{part}]", dict(r.summary(), cached=r.cached, invariants=["AnalyzersOK", "SearchersOK", "OnePerFile"]))

    marked = marked_by_ast()
    mods = sorted(marked)
    rng = drivers.rng_for("registry")
    work = scratch("reg")
    path = os.path.join(work, "reg.ndjson")
    shipped_dir = os.path.join(next(iter(multidecoder.__path__)), "keywords")
    shipped_files = read_dir(shipped_dir)
    recs = []

    def attempt(fn, *a, **k):
        try:
            return fn(*a, **k), []
        except Exception as e:  # noqa: BLE001
            return None, [type(e).__name__ + ":" + str(e)[:100]]

    # the default registry, as build_registry() and as Multidecoder() see it
    reg, failed = attempt(build_registry)
    recs.append(dict(observe(reg, marked, None, None, shipped_files, failed=failed), origin="build_registry()"))
    md, failed = attempt(Multidecoder)
    recs.append(dict(observe(md.decoders if md else None, marked, None, None, shipped_files, failed=failed), origin="Multidecoder()"))
    # include / exclude algebra over the real modules
    choices: list[tuple] = []
    for m in mods:
        choices += [([m], None), (None, [m]), ([m], [m])]
    for _ in range(40 if tier == "quick" else 600):
        # unknown names, and names that are a prefix / part / extension of a real module name (selection is by exact name)
        odd = ["nosuchmodule", "net", "base", "hex2", "shell.py", "Hex", "decoders.hex", ""]
        a = rng.sample(mods + odd, rng.randint(1, len(mods)))
        b = rng.sample(mods + odd, rng.randint(0, len(mods)))
        choices.append((rng.choice([None, a, a]), rng.choice([None, b, b, []])))
    for inc, exc in choices:
        reg, failed = attempt(get_analyzers, include=inc, exclude=exc)
        recs.append(dict(observe(reg, marked, inc, exc, [], check_kw=False, failed=failed), origin="get_analyzers"))
    for inc, exc in choices[:: 6 if tier == "quick" else 1][:120]:
        # through build_registry, as generators (Iterable[str]) rather than lists
        reg, failed = attempt(build_registry, "", iter(inc) if inc is not None else None, iter(exc) if exc is not None else None)
        recs.append(dict(observe(reg, marked, inc, exc, shipped_files, failed=failed), origin="build_registry(include, exclude)"))
    # keyword directory layouts
    cwd = os.getcwd()
    for i in range(60 if tier == "quick" else 1500):
        d = os.path.join(work, f"dir{i}" + ["", "[2024]", " (copy)", ".d"][i % 4 if i % 3 != 1 else 0])
        random_dir(rng, d)
        files = read_dir(d)
        if i % 3 == 1:      # the directory given as a relative path (as `-k kw` on the command line would)
            os.chdir(work)
            try:
                reg, failed = attempt(get_keywords, rng.choice([f"dir{i}", f"./dir{i}", f"dir{i}/"]))
            finally:
                os.chdir(cwd)
            recs.append(dict(observe(reg, marked, None, None, files, check_fns=False, failed=failed), origin="get_keywords(relative dir)"))
        reg, failed = attempt(get_keywords, d)
        recs.append(dict(observe(reg, marked, None, None, files, check_fns=False, failed=failed), origin="get_keywords(dir)"))
        if i % 5 == 0:
            reg, failed = attempt(build_registry, d)
            recs.append(dict(observe(reg, marked, None, None, files, failed=failed), origin="build_registry(dir)"))
    # behavioural probes: an input that only one shipped decoder reacts to, through the default scanner
    from .props_net import mini_pe

    arr = b",".join(b"%d" % (i % 251) for i in range(505))
    probes = {
        "find_atob": (b"x = atob('aGVsbG8gd29ybGQ=')", "javascript.string", "encoding.base64"),
        "find_base64": (b"x = aGVsbG8gd29ybGQsIGhlbGxvIHdvcmxkIQ== ;", "", "encoding.base64"),
        "find_Base64Decode": (b'Base64Decode("aGVsbG8gd29ybGQ=")', "vba.string", "encoding.base64"),
        "find_FromBase64String": (b"FromBase64String('aGVsbG8gd29ybGQ=')", "powershell.bytes", "encoding.base64"),
        "find_chr": (b"x = chr(65)", "string", "function.chr"),
        "find_utf16": (b"h\0e\0l\0l\0o\0 \0w\0o\0r\0l\0d\0", "", "codec.uft-16"),
        "find_concat": (b'x = "he" + "llo"', "string", "concatenation"),
        "find_executable_name": (b"run evil.exe now", "executable.filename", ""),
        "find_library": (b"load mylib.dll now", "executable.filename", ""),
        "find_hex": (b"x = 68656c6c6f20776f726c6468656c6c6f ;", "", "decoded.hexadecimal"),
        "find_FromHexString": (b"FromHexString('68656c6c6f20776f726c6468656c6c6f')", "powershell.bytes", "encoding.hexidecimal"),
        "find_unescape": (b"unescape('%68%65%6c%6c%6f')", "string", "function.unescape"),
        "find_domains": (b"see evil-site.net today", "network.domain", ""),
        "find_emails": (b"mail admin@example.org today", "network.email", ""),
        "find_ips": (b"host 10.20.30.40 up", "network.ip", ""),
        "find_urls": (b"get http://evil-site.net/a now", "network.url", ""),
        "find_path": (b"see /usr/local/bin/tool now", "path", ""),
        "find_windows_path": (b"see C:\\Users\\Public\\file.txt now", "windows.path", ""),
        "find_pe_files": (b"junk " + mini_pe(1, 0, rng), "pe_file", ""),
        "find_powershell_bytes": (b"$b = " + arr + b" ;", "powershell.bytes", ""),
        "find_replace": (b'"hexllo".replace("x","")', "string", "replace"),
        "find_powershell_replace": (b"'hexllo' -replace 'x',''", "powershell.string", "replace"),
        "find_vba_replace": (b'Replace("hexllo", "x", "")', "vba.string", "vba.replace"),
        "find_js_regex_replace": (b'"hexllo".replace(/x/g,"")', "javascript.string", "replace"),
        "find_reverse": (b"reverse('olleh')", "string", "reverse"),
        "find_strreverse": (b'StrReverse("olleh")', "vba.string", "vba.reverse"),
        "find_cmd_strings": (b"cmd /c dir", "shell.cmd", ""),
        "find_powershell_strings": (b"powershell -c whoami", "shell.powershell", ""),
        "find_createobject": (b"CreateObject('WScript.Shell')", "vba.function.createobject", ""),
        "find_xml_hex": (b"&#104;&#101;&#108;&#108;&#111;", "", "unescape.xml"),
    }
    kwfile = sorted(shipped_files, key=lambda x: (x["dir"], x["name"]))[0]        # one shipped keyword list, its first listed word
    word = [w for w in bytes(kwfile["raw"]).splitlines() if w][0]
    probes["keywords:" + kwfile["name"]] = (b"call " + word + b" now", kwfile["name"], "")
    if md is not None:
        for name, (data, ty, obf) in sorted(probes.items()):
            try:
                nodes = [[nd.type, nd.obfuscation] for nd in md.scan(data)]
            except Exception:  # noqa: BLE001  (C01's business)
                nodes = []
            recs.append({"kind": "probe", "probe": name, "want": [ty, obf], "nodes": nodes, "origin": "probe " + name, "inc": [], "exc": [],
                         "incNone": True, "excNone": True, "failed": [], "files": [], "gotKw": [], "gotFns": []})
    with open(path, "w") as f:
        for r_ in recs:
            f.write(json.dumps(r_) + "\n")
    n = len(recs)
    v, r = tlc.run_trace("RegistryTrace", "SPECIFICATION Spec\nCHECK_DEADLOCK FALSE\n", path, n, max_lines=400, max_bytes=25_000_000)
    res.add("trace_states", r.distinct)
    for t, cl in v.items():
        for c in cl:
            if c not in ("ACCEPT", "REJECT"):
                tr = recs[t - 1]
                slim = dict(tr, files=[{"name": x["name"], "dir": x.get("dir"), "bytes": len(x["raw"])} for x in tr["files"]][:20],
                            gotKw=[{"label": k["label"], "n": len(k["words"]), "applied": [a[0] for a in k.get("applied", [])][:4]} for k in tr["gotKw"]][:20])
                res.violation(f"RegistryTrace rejects clause {c} for {tr['origin']} include={tr['inc'] if not tr['incNone'] else None} "
                              f"exclude={tr['exc'] if not tr['excNone'] else None} failed={tr['failed']}",
                              {"clause": c, "origin": tr["origin"]}, {"kind": "registry-trace", "trace": slim})
    # behavioural probe: each marked decoder is actually applied by a default scanner
    res.coverage["marked_functions"] = sum(len(v_) for v_ in marked.values())
    res.coverage["traces_validated_against_impl"] = n
    res.coverage["evaluations"] = n
    res.coverage["distinct_nontrivial"] = sum(1 for x in recs if x["gotFns"] or x["gotKw"])
    res.coverage["rule"] = ("one trace per registry construction (default, include/exclude subsets of the real modules incl. unknown names "
                            "and generators, generated keyword directories with nested dirs / CRLF / blank lines / duplicates); "
                            "non-trivial = the registry returned is not empty")
    res.sample({"modules": mods, "shipped_keyword_files": len(shipped_files)})
    res.sample({"include": choices[3][0], "exclude": choices[3][1]})
    return res.finish()
