"""Recording real scans as traces for ScanTrace.tla (and the other trace modules).

Observation uses only the public API: every registry entry is wrapped so that what it returns
is snapshotted at return time (the engine later shifts hits in place), object identities are kept,
and after the scan the tree is walked through its children lists while parent pointers and
iteration order are *reported* (by identity), never repaired."""
from __future__ import annotations

import signal
from typing import Callable

from .common import use_repo

use_repo()
from multidecoder.multidecoder import Multidecoder  # noqa: E402
from multidecoder.node import Node  # noqa: E402


class ScanTimeout(Exception):
    pass


def _on_alarm(*_a):
    raise ScanTimeout()


class Recorder:
    def __init__(self, decoders: list[Callable] | None = None, hang_s: int = 20):
        self.md = Multidecoder(decoders)
        self.base = list(self.md.decoders)
        self.md.decoders = [self._wrap(j, f) for j, f in enumerate(self.base)]
        self.plain = Multidecoder(list(self.base))  # unobserved twin for auxiliary scans
        self.hang_s = hang_s
        self.deferred: list = []

    # -- observation --------------------------------------------------------------------------
    def _wrap(self, j: int, f: Callable):
        name = getattr(f, "__name__", None)
        if name is None:  # functools.partial(find_keywords, label, words)
            args = getattr(f, "args", ())
            name = "keywords:" + str(args[0]) if args else repr(f)

        def w(data):
            out = f(data)
            if data is not self._cur_data or j <= self._cur_j:
                self.collects.append((data, []))
                self._cur_data = data
            self._cur_j = j
            cur = self.collects[-1][1]
            for h in out:
                sn = self._snap(h, True)
                sn["dec"] = name
                cur.append((h, sn))
            return out

        return w

    def _intern(self, b: bytes) -> int:
        t = self.tix.get(b)
        if t is None:
            t = self.tix[b] = len(self.texts) + 1
            self.texts.append(b)
        return t

    def _snap(self, h: Node, top: bool) -> dict:
        if not top:
            self.kid_ids.add(id(h))
        return {
            "s": h.start,
            "e": h.end,
            "ty": h.type,
            "obf": h.obfuscation,
            "val": self._intern(h.value),
            "kids": [self._snap(c, False) for c in h.children],
        }

    # -- one scan -----------------------------------------------------------------------------
    def scan(self, data: bytes, k: int, *, lo: bool = False, subs: bool = False, lo_first: bool = False, defer_subs: bool = False,
             prepared: bool = False) -> dict:
        """lo_first: the scan with limit k-1 is made BEFORE the recorded one (state that one scan leaves behind must not show
        in the other, whichever comes first).  defer_subs: the independent re-scans of decoded values are made later, by
        finish_subs() (nothing a scan reports may depend on how old the process is)."""
        lo_tree = self._aux(lambda: self.plain.scan(data, k - 1)) if (lo and lo_first) else None
        self.collects: list = []
        self.texts: list[bytes] = []
        self.tix: dict[bytes, int] = {}
        self.kid_ids: set[int] = set()
        self._cur_data = None
        self._cur_j = -1
        self._intern(data)
        outcome, tree = "ok", None
        old = signal.signal(signal.SIGALRM, _on_alarm)
        signal.alarm(self.hang_s)
        try:
            if prepared:
                # the other public entry: scan_node on a node the caller prepared, here with the constructor's default span;
                # everything below the root is as for scan(); the root's own span is the caller's and is recorded as scan()'s
                tree = self.md.scan_node(Node("", data), k)
                if tree is not None and (tree.start, tree.end) == (0, 0):
                    tree.end = len(data)
            else:
                tree = self.md.scan(data, k)
        except ScanTimeout:
            outcome = "hang"
        except RecursionError:
            outcome = "exc:RecursionError"
        except Exception as e:  # noqa: BLE001
            outcome = "exc:" + type(e).__name__
            self.last_exc = e
        finally:
            signal.alarm(0)
            signal.signal(signal.SIGALRM, old)

        hits: dict[int, list] = {}
        owner: dict[int, tuple[int, int]] = {}
        searched = []
        nondet = False
        for data_, hs in self.collects:
            t = self._intern(data_)
            searched.append(t)
            recs = [sn for _obj, sn in hs]
            if t in hits and hits[t] != recs:
                nondet = True
            hits.setdefault(t, recs)
            for ix, (obj, _sn) in enumerate(hs, 1):
                owner[id(obj)] = (t, ix)
        rec = {
            "k": k,
            "outcome": outcome if not nondet else "nondet",
            "input": data.hex(),
            "searched": searched,
            "hasLo": False,
            "lo": [],
            "subs": [],
            "tree": [],
            "iter": [],
        }
        if tree is not None:
            obs, objs = self._walk(tree, owner)
            for o in obs:
                # a node that claims to be hit number ix of text t, where the hits recorded for t (its first search) have no
                # such entry: the registry did not behave as a function of the text (concurrent or stateful decoders)
                if o["by"] == "engine" and not (1 <= o["src"][1] <= len(hits.get(o["src"][0], []))):
                    o["by"], o["src"] = "other", [0, 0]
                    rec["outcome"] = "nondet"
            rec["tree"] = obs
            pos = {id(o): i + 1 for i, o in enumerate(objs)}
            try:
                rec["iter"] = [pos.get(id(n), -1) for n in _bounded_iter(tree, 4 * len(objs) + 8)]
            except Exception:  # noqa: BLE001
                rec["iter"] = [-2]
            if lo:
                rec["hasLo"] = True
                rec["lo"] = self._walk(lo_tree if lo_tree is not None else self._aux(lambda: self.plain.scan(data, k - 1)), {})[0]
            if subs and defer_subs:
                self.deferred.append((rec, objs, obs, k, set(self.kid_ids), list(self.texts), dict(self.tix)))
            elif subs:
                rec["subs"] = self._subs(objs, obs, k)
        rec["texts"] = [list(b) for b in self.texts]
        rec["hits"] = [hits.get(t, []) for t in range(1, len(self.texts) + 1)]
        self.last_tree = tree
        return rec

    def _aux(self, fn) -> Node:
        """An auxiliary scan (lower depth limit, independent re-scan).  If it raises or hangs, what is compared is a tree that
        cannot equal any real one, so the clause that needed it rejects - the harness itself never dies of the code under test."""
        old = signal.signal(signal.SIGALRM, _on_alarm)
        signal.alarm(self.hang_s)
        try:
            return fn()
        except BaseException as e:  # noqa: BLE001
            return Node("<auxiliary scan raised " + type(e).__name__ + ">", b"", "", -1, -1)
        finally:
            signal.alarm(0)
            signal.signal(signal.SIGALRM, old)

    def finish_subs(self) -> None:
        """The deferred independent re-scans (see scan(defer_subs=True)); texts met now are interned into the trace's own table."""
        for rec, objs, obs, k, kid_ids, texts, tix in self.deferred:
            self.kid_ids, self.texts, self.tix = kid_ids, texts, tix
            rec["subs"] = self._subs(objs, obs, k)
            rec["texts"] = [list(b) for b in self.texts]
            rec["hits"] = rec["hits"] + [[] for _ in range(len(self.texts) - len(rec["hits"]))]
        self.deferred = []

    def _walk(self, tree: Node, owner: dict) -> tuple[list[dict], list[Node]]:
        obs: list[dict] = []
        objs: list[Node] = []
        pos: dict[int, int] = {}

        def visit(n: Node, p: int) -> None:
            dup = id(n) in pos
            me = len(obs) + 1
            if not dup:
                pos[id(n)] = me
            src = owner.get(id(n))
            obs.append(
                {
                    "p": p,
                    "pp": -1,
                    "dup": dup,
                    "s": n.start,
                    "e": n.end,
                    "ty": n.type,
                    "obf": n.obfuscation,
                    "val": self._intern(n.value),
                    "by": "engine" if src else ("decoder" if id(n) in self.kid_ids else ("root" if p == 0 else "other")),
                    "src": list(src) if src else [0, 0],
                }
            )
            objs.append(n)
            if dup or len(obs) > 20000:
                return
            for c in n.children:
                visit(c, me)

        visit(tree, 0)
        for o, n in zip(obs, objs):
            o["pp"] = 0 if n.parent is None else pos.get(id(n.parent), -1)
        return obs, objs

    def _subs(self, objs: list[Node], obs: list[dict], k: int) -> list[dict]:
        """For every decoded node without decoder-supplied children: an independent scan of a node of
        the same type and value with the remaining depth.  Which depth that is, and whether the node
        counts as decoded, is re-derived by TLC; here it only selects what to run."""
        out = []
        steps = [0] * (len(obs) + 1)
        for i, (o, n) in enumerate(zip(obs, objs), 1):
            if i == 1:
                continue
            par = objs[o["p"] - 1]
            orig = par.value[n.start : n.end]
            is_ctx = o["by"] == "engine" and n.value.lower() == orig.lower() and not _had_kids(n, self.kid_ids)
            steps[i] = steps[o["p"]] + (0 if is_ctx else 1)
            if o["by"] == "engine" and not is_ctx and not _had_kids(n, self.kid_ids):
                d = k - steps[i]
                twin = self._aux(lambda n=n, d=d: self.plain.scan_node(Node(n.type, n.value), d))
                sub = self._walk(twin, {})[0]
                # the twin's root is a bare Node(type, value): start = end = 0 by construction
                out.append({"pos": i, "d": d, "tree": sub})
        return out


def _had_kids(n: Node, kid_ids: set[int]) -> bool:
    return any(id(c) in kid_ids for c in n.children)


def _bounded_iter(tree: Node, limit: int):
    for i, n in enumerate(tree):
        if i >= limit:
            raise RuntimeError("iteration does not end")
        yield n
