"""Runs inside a subprocess with a chosen PYTHONHASHSEED: builds scanners, scans, prints events (JSON lines)."""
import hashlib
import json
import os
import random
import sys
import threading


def main() -> None:
    job = json.load(sys.stdin)
    sys.path.insert(0, job["src"])
    rnd = random.Random(job["walk"])
    if job["walk"] >= 0:
        def walk(top, *a, **k):
            names = sorted(os.listdir(top))
            rnd.shuffle(names)
            dirs = [n for n in names if os.path.isdir(os.path.join(top, n))]
            files = [n for n in names if not os.path.isdir(os.path.join(top, n))]
            yield top, dirs, files
            for d in dirs:
                yield from walk(os.path.join(top, d))

        os.walk = walk
    from multidecoder.multidecoder import Multidecoder
    from multidecoder.registry import build_registry

    proc = job["proc"]
    lock = threading.Lock()
    events = []

    def emit(ev):
        with lock:
            events.append(ev)

    def digest(tree):
        def pr(n):
            return [n.type, n.obfuscation, n.value.hex(), n.start, n.end, [pr(c) for c in n.children]]

        return hashlib.sha256(json.dumps(pr(tree)).encode()).hexdigest()

    emit({"ev": "StartProc", "proc": proc, "seed": os.environ.get("PYTHONHASHSEED", "random"), "walk": job["walk"]})
    scanners = {}

    def new(inst, cfg):
        d = job["cfgs"][cfg]
        if isinstance(d, dict):    # a full configuration: keyword directory, include list, exclude list
            reg = build_registry(d.get("dir", ""), include=d.get("include"), exclude=d.get("exclude"))
            scanners[inst] = Multidecoder(reg)
        else:
            scanners[inst] = Multidecoder(build_registry(d) if d else None)
        emit({"ev": "NewScanner", "proc": proc, "inst": inst, "cfg": cfg})

    def scan(thread, inst, x, k):
        emit({"ev": "Begin", "thread": thread, "inst": inst, "input": x, "k": k, "view": "tree"})
        try:
            # the default depth limit is asked for the way callers do: by not passing one
            dg = digest(scanners[inst].scan(bytes.fromhex(x)) if k == 10 else scanners[inst].scan(bytes.fromhex(x), k))
        except Exception:  # noqa: BLE001
            dg = "EXC"
        emit({"ev": "End", "thread": thread, "digest": dg})

    inputs = job["inputs"]
    ks = job["ks"]
    if job["mode"] == "seq":
        order = list(job["cfgs"])
        if job.get("reverse"):
            order.reverse()
        for cfg in order:
            inst = f"{proc}/{cfg}/fresh"
            new(inst, cfg)
            for x in inputs:
                for k in ks:
                    scan(f"{proc}/main", inst, x, k)
    elif job["mode"] == "reuse":
        r2 = random.Random(job["walk"] + 1000)
        for cfg in job["cfgs"]:
            shared = f"{proc}/{cfg}/reused"
            new(shared, cfg)
            for n in range(job["n"]):
                x = r2.choice(inputs)
                k = r2.choice(ks)
                scan(f"{proc}/main", shared, x, k)
                if n % 7 == 0:  # a fresh scanner for the same scan
                    inst = f"{proc}/{cfg}/fresh{n}"
                    new(inst, cfg)
                    scan(f"{proc}/main", inst, x, k)
    elif job["mode"] == "threads":
        sys.setswitchinterval(1e-6)
        cfg = list(job["cfgs"])[0]
        shared = f"{proc}/{cfg}/shared"
        new(shared, cfg)

        def body(t):
            r2 = random.Random(job["walk"] * 100 + t)
            for _ in range(job["n"]):
                scan(f"{proc}/t{t}", shared, r2.choice(inputs), r2.choice(ks))

        ts = [threading.Thread(target=body, args=(t,)) for t in range(job["threads"])]
        for t in ts:
            t.start()
        for t in ts:
            t.join()
    elif job["mode"] == "addr":
        # address re-use: scan a, release it and its tree, then scan an equally long b that the allocator places at a's old
        # address (asked repeatedly until it does); what was remembered about a must not be taken for knowledge about b
        import gc

        cfg = list(job["cfgs"])[0]
        shared = f"{proc}/{cfg}/reused"
        new(shared, cfg)
        md = scanners[shared]
        for xa, xb in job["pairs"]:
            hit = False
            for _try in range(400):
                a = bytes.fromhex(xa)
                ida = id(a)
                md.scan(a, 10)
                del a
                gc.collect()
                b = bytes.fromhex(xb)
                if id(b) == ida:
                    hit = True
                    emit({"ev": "Begin", "thread": f"{proc}/main", "inst": shared, "input": xb, "k": 10, "view": "tree"})
                    try:
                        dg = digest(md.scan(b, 10))
                    except Exception:  # noqa: BLE001
                        dg = "EXC"
                    emit({"ev": "End", "thread": f"{proc}/main", "digest": dg})
                    del b
                    break
                del b
            emit({"ev": "Note", "pair": xb[:16], "address_reused": hit})
    for e in events:
        print(json.dumps(e))


if __name__ == "__main__":
    main()
