"""C03..C08 (and the engine half of C01/C07): Scan.tla model checking + conformance in both directions."""
from __future__ import annotations

import json
import os
import random
from concurrent.futures import ThreadPoolExecutor

from . import tlc
from .common import NCPU, SEED, MachineryError, Result, scratch

# ------------------------------------------------------------------------------------------
# configurations of the exhaustive family (ScanMC)

FAMILY = {
    # name: constants
    "s": dict(L0=3, L1=2, N0=1, N1=1, Ks="{1, 3}", Types='{"", "x"}',
              Kinds='{"slice", "flip", "target", "leaf", "self", "kid"}', Types1='{"x"}', Kinds1='{"slice", "leaf", "self"}'),
    "q": dict(L0=3, L1=2, N0=2, N1=1, Ks="{0, 1, 2, 3}", Types='{"", "x"}',
              Kinds='{"slice", "flip", "target", "leaf", "self", "kid"}', Types1='{"x"}', Kinds1='{"slice", "leaf", "self"}'),
    # three hits on a three-byte input, no nesting below
    "t3": dict(L0=3, L1=1, N0=3, N1=0, Ks="{1, 2}", Types='{"", "x"}',
               Kinds='{"slice", "flip", "leaf", "kid"}', Types1='{"x"}', Kinds1='{"leaf"}'),
    # three hits, two value kinds (small enough to export for the quick replays)
    "t3s": dict(L0=3, L1=1, N0=3, N1=0, Ks="{1, 2}", Types='{"", "x"}', Kinds='{"slice", "leaf"}', Types1='{"x"}', Kinds1='{"leaf"}'),
    # four hits, none starting at offset 0 (nested contexts around a decoded hit with a raw hit inside it, ...)
    "n4": dict(L0=3, L1=1, N0=4, N1=0, Ks="{2}", Types='{"x", "y"}', Kinds='{"slice", "leaf"}', Types1='{"x"}', Kinds1='{"leaf"}', MinStart=1),
    # four plain contexts on a four-byte input, none at offset 0, three types (C1 > C2 > C3 and a hit behind C3)
    "c4": dict(L0=4, L1=1, N0=4, N1=0, Ks="{1}", Types='{"x", "y", "z"}', Kinds='{"slice"}', Types1='{"x"}', Kinds1='{"leaf"}', MinStart=1),
    # four-byte input (ten spans), two hits
    "t4": dict(L0=4, L1=2, N0=2, N1=1, Ks="<- K_m1_2_4", Types='{"", "x"}',
               Kinds='{"slice", "target", "leaf", "self"}', Types1='{"x"}', Kinds1='{"slice", "leaf"}'),
    # an input with a byte above 127 ("a\xC8c"); decodings that only drop it or change its Latin-1 case
    "h3": dict(L0=3, L1=1, N0=3, N1=0, Ks="{1, 2}", Types='{"x"}', Kinds='{"slice", "strip", "hiflip", "leaf"}', Types1='{"x"}', Kinds1='{"leaf"}', HighAt=2),
    # small family in which the defect of the pinned commit shows (used for non-vacuity runs only)
    "nv": dict(L0=3, L1=1, N0=3, N1=0, Ks="{2}", Types='{"x"}', Kinds='{"slice", "leaf"}', Types1='{"x"}', Kinds1='{"leaf"}'),
    # two levels that both decode again
    "t2": dict(L0=3, L1=2, N0=2, N1=2, Ks="{2, 5}", Types='{"x"}',
               Kinds='{"slice", "target", "self", "kid"}', Types1='{"x"}', Kinds1='{"slice", "leaf", "self", "target"}'),
}

INVARIANTS = ["Conforms", "WellFormed", "AbsPos", "ChainIsContext", "Laminar", "NoDoubleReport", "NoLoss",
              "DepthBound", "PrefixDone", "SubScan", "NoHang"]


def family_cfg(name: str, variant: str = "fixed", invariants=None, liveness=True, gen=False, slack: int = 0) -> str:
    c = FAMILY[name]
    lines = ["CONSTANTS"]
    for k, v in c.items():
        if k not in ("MinStart", "HighAt"):
            lines.append(f" {k} {v}" if str(v).startswith("<-") else f" {k} = {v}")
    lines += [f" MinStart = {c.get('MinStart', 0)}", f" HighAt = {c.get('HighAt', 0)}", f" Slack = {slack}", f' Variant = "{variant}"', " WK <- GenK", " WTexts <- GenTexts", " WHits <- GenHits", " NWorlds <- GenN"]
    if gen:
        lines += ["INIT Init", "NEXT Next"]
    else:
        lines += ["SPECIFICATION Spec"]
        for inv in invariants if invariants is not None else INVARIANTS:
            lines.append(f"INVARIANT {inv}")
        if liveness:
            lines.append("PROPERTY TerminatesDone")
    lines.append("CHECK_DEADLOCK FALSE")
    return "\n".join(lines) + "\n"


def model_check(res: Result, names: list[str]) -> None:
    """Exhaustive TLC runs of the engine machine against the reference and every invariant."""
    for name in names:
        r = tlc.run("ScanMC", family_cfg(name), cache=True, timeout=3000, heap="12g")
        tlc.must_pass(r, f"ScanMC[{name}]")
        res.add("states", r.distinct)
        res.add("transitions", r.generated)
        res.stage(f"ScanMC[{name}]", dict(r.summary(), constants=FAMILY[name], cached=r.cached,
                                         invariants=INVARIANTS, liveness="TerminatesDone"))


def non_vacuity(res: Result, invs: list[str]) -> None:
    """The machine with the defect of the pinned commit (decode_end taken after re-basing) has to
    violate each invariant; otherwise the family does not exercise it."""
    for inv in invs:
        cfg = family_cfg("nv", variant="asis", invariants=[inv], liveness=False)
        r = tlc.run("ScanMC", cfg, cache=True, timeout=600)
        tlc.must_violate(r, [inv], f"ScanMC[nv, asis, {inv}]")
        res.stage(f"ScanMC[nv, Variant=asis, {inv}]", dict(r.summary(), expected_violation=inv))


def oob_demo(res: Result) -> None:
    """With hits allowed to end past the text the engine's context-pop loop can never exit: NoHang must fail.
    This is the decoder-side obligation (C03, in-bounds spans) that engine totality (C01) rests on."""
    cfg = family_cfg("nv", invariants=["NoHang"], liveness=False, slack=1)
    r = tlc.run("ScanMC", cfg, cache=True, timeout=600)
    tlc.must_violate(r, ["NoHang"], "ScanMC[nv, Slack=1]")
    res.stage("ScanMC[nv, hits may end past the text] (NoHang must fail)", dict(r.summary(), expected_violation="NoHang"))


# ------------------------------------------------------------------------------------------
# direction A: TLC's worlds replayed through the real engine


def export_family(name: str) -> dict:
    """The family as TLC generates it (specification-only: cached under .cache by the digest of the modules + constants)."""
    cfg = family_cfg(name, gen=True)
    key = tlc._spec_digest("ScanGen", cfg, ["export"])
    cached = os.path.join(tlc.CACHE, key + ".family.json")
    if os.path.exists(cached):
        with open(cached) as f:
            return json.load(f)
    out = os.path.join(scratch("gen"), "family.json")
    r = tlc.run("ScanGen", cfg, env={"OUT_FILE": out}, workers=1, timeout=1200)
    if not os.path.exists(out):
        raise MachineryError("ScanGen produced no family:\n" + r.out[-2000:])
    with open(out) as f:
        fam = json.load(f)
    os.makedirs(tlc.CACHE, exist_ok=True)
    tmp = cached + f".{os.getpid()}.tmp"
    with open(tmp, "w") as f:
        json.dump(fam, f)
    os.replace(tmp, cached)
    return fam


def world_of(fam: dict, w: int) -> tuple[int, list[bytes], dict[int, list]]:
    n1, n2 = len(fam["h1"]), len(fam["h2"])
    a = (w - 1) % n1
    b = ((w - 1) // n1) % n2
    c = (w - 1) // (n1 * n2)
    return fam["ks"][c], [bytes(t) for t in fam["texts"]], {1: fam["h1"][a], 2: fam["h2"][b]}


def synthetic_registry(texts: list[bytes], hits: dict[int, list]):
    """One registry entry per hit position, so that registry order = order in the world."""
    from multidecoder.node import Node

    by_content = {texts[t - 1]: hs for t, hs in hits.items()}
    width = max([len(hs) for hs in hits.values()] + [1])

    def mk(rec) -> Node:
        return Node(rec["ty"], texts[rec["val"] - 1], rec["obf"], rec["s"], rec["e"],
                    children=[mk(k) for k in rec["kids"]] or None)

    def entry(i):
        def search(data: bytes):
            hs = by_content.get(data, [])
            return [mk(hs[i])] if i < len(hs) else []

        return search

    return [entry(i) for i in range(width)]


def replay_worlds(name: str, sample: int | None, path: str, *, lo=True, subs=True) -> tuple[int, int]:
    """Write one trace per replayed world; returns (worlds in family, worlds replayed)."""
    from .record import Recorder

    fam = export_family(name)
    n = fam["n"]
    rng = random.Random(SEED * 7919 + 17)
    ws = range(1, n + 1) if sample is None or sample >= n else sorted(rng.sample(range(1, n + 1), sample))
    count = 0
    with open(path, "w") as f:
        for w in ws:
            k, texts, hits = world_of(fam, w)
            rec = Recorder(synthetic_registry(texts, hits), hang_s=10)
            tr = rec.scan(texts[0], k, lo=lo, subs=subs, prepared=(w % 5 == 4))
            tr["origin"] = f"world {name}#{w}"
            f.write(json.dumps(tr) + "\n")
            count += 1
    return n, count


# ------------------------------------------------------------------------------------------
# validation

TRACE_CFG = """CONSTANTS
 Variant = "fixed"
 WK <- TraceK
 WTexts <- TraceTexts
 WHits <- TraceHits
 NWorlds <- TraceN
SPECIFICATION TraceSpec
CHECK_DEADLOCK FALSE
"""


def validate(path: str, n: int, workers: int | str = "auto", timeout: int = 3000) -> tuple[dict[int, list[str]], tlc.TLCResult]:
    r = tlc.run("ScanTrace", TRACE_CFG, env={"TRACE_FILE": path}, workers=workers, timeout=timeout, heap="12g")
    v = r.verdicts()
    judged = [t for t, cl in v.items() if "ACCEPT" in cl or "REJECT" in cl]
    if not r.completed or len(judged) != n:
        raise MachineryError(f"ScanTrace: {len(judged)}/{n} traces judged, rc={r.rc}\n" + r.diagnosis())
    return v, r


def validate_sharded(paths: list[tuple[str, int]], timeout: int = 3000):
    """Several trace files in parallel, each with its own TLC (start-up amortised over thousands of traces)."""
    per = max(1, NCPU // max(1, len(paths)))
    with ThreadPoolExecutor(len(paths)) as ex:
        futs = [ex.submit(validate, p, n, per, timeout) for p, n in paths]
        return [f.result() for f in futs]
