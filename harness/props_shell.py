"""C16: shell commands.  Shell.tla / ShellMC.tla model-checked; ShellTrace.tla on the real functions."""
from __future__ import annotations

import itertools
import json
import os

from . import drivers, tlc
from .common import MachineryError, Result, scratch, use_repo


def b2l(b: bytes) -> list[int]:
    return list(b)


MC = [("caret", "ShellMC_caret.cfg", True), ("paren", "ShellMC_paren.cfg", True),
      ("caret[asis]", "ShellMC_caret_asis.cfg", False), ("paren[asis]", "ShellMC_paren_asis.cfg", False)]


def hits_of(nodes) -> list[dict]:
    return [{"s": h.start, "e": h.end, "ty": h.type, "val": b2l(h.value), "obf": h.obfuscation,
             "kids": [{"s": c.start, "e": c.end, "ty": c.type, "val": b2l(c.value), "obf": c.obfuscation} for c in h.children]}
            for h in nodes]


def ev_caret(shell, s: bytes) -> dict:
    ev = {"kind": "caret", "s": b2l(s), "out": [], "raised": ""}
    try:
        ev["out"] = b2l(shell.strip_carets(s))
    except Exception as e:  # noqa: BLE001
        ev["raised"] = type(e).__name__
    return ev


def ev_cmd(shell, re, data: bytes) -> dict:
    ev = {"kind": "cmd", "data": b2l(data), "matches": [[m.start(), m.end()] for m in re.finditer(shell.CMD_RE, data)],
          "hits": [], "raised": ""}
    try:
        ev["hits"] = hits_of(shell.find_cmd_strings(data))
    except Exception as e:  # noqa: BLE001
        ev["raised"] = type(e).__name__
    return ev


def ev_ps(shell, re, data: bytes) -> dict:
    inds = []
    for ind in re.finditer(shell.POWERSHELL_INDICATOR_RE, data):
        enc = re.match(shell.ENC_RE, data, pos=ind.end())
        inds.append([ind.start(1), enc.end() if enc else -1])
    ev = {"kind": "ps", "data": b2l(data), "inds": inds, "hits": [], "raised": ""}
    try:
        ev["hits"] = hits_of(shell.find_powershell_strings(data))
    except Exception as e:  # noqa: BLE001
        ev["raised"] = type(e).__name__
    return ev


def strings(alphabet: list[bytes], maxlen: int):
    for n in range(maxlen + 1):
        for t in itertools.product(alphabet, repeat=n):
            yield b"".join(t)


B64 = b"ZQBjAGgAbwAgAGIAZQBlAA=="          # "echo bee" in UTF-16LE


def ps_lattice(rng, tier: str) -> list[bytes]:
    pre = [b"", b'"', b"'", b"('", b"x='", b"for /f %a in ('", b'cmd /c "', b"a'b ", b";"]
    tok = [b"powershell", b"pwsh", b"p^owershell", b"PowerShell.exe", b"^p^o^w^e^r^s^h^e^l^l"]
    full = b"-encodedcommand"
    switches = [full[:n] for n in range(2, len(full) + 1)]
    args = [b" -c x", b' -Command "y z"', b" x^y", b" a^\r\nb", b"", b" -nop -w hidden -c z", b" a^\x00b c", b" a^\r\n\x00b", b" -c 'x' y"]
    for sw in (switches if tier == "thorough" else switches[::3] + [b"-e", b"-ec", full]):
        for style in (b" " + sw, b" /" + sw[1:], b"/" + sw[1:]):
            for q in (b"", b'"', b"'"):
                args.append(style + b" " + q + B64 + q)
            for gap in (b"\t", b"\r\n", b"  ", b" \t ", b"\x0b", b"\n"):       # white space other than one blank before the argument
                args.append(style + gap + B64)
            args.append(style + b' "' + B64)           # an opening quote that is never closed
            args.append(style + b" '" + B64 + b" ")
            args.append(style + b" " + B64 + b'"')      # a closing quote only
        args.append(b" -nop " + sw + b" " + B64)
        args.append(b" -NoP -NonI " + sw.upper() + b" " + B64)
        args.append(b" " + sw[:2] + b"^" + sw[2:] + b" ZQBj^AGgAbwAgAGIAZQ^BlAA==")
    args += [b" -e //5lAGMAaABvAA==", b" -e /v8AZQBjAGgAbwA=", b" -enc //5lAGMAaABvACAAYgA=", b" -e //4=",      # byte-order marks (FF FE / FE FF) before the text
             b" -e ^\r\n" + B64, b"/e^\r\n" + B64, b" -e QUJD", b" -e QUJ", b" -e " + B64[:-2], b" -e //8AQQA=", b" -e ANgA3A==",
             b" -e QQBCAEMA", b" -e 4pyTAA=="]
    post = [b"", b'"', b"'", b"')", b"') do x", b'" & y', b" tail", b" (", b"' (", b"\x00x"]
    out = []
    combos = list(itertools.product(pre, tok, args, post))
    plain_args = []
    if tier == "thorough" and len(combos) > 60000:
        plain_args = [a for a in args if not any(c in a for c in (B64[:8], b"QUJ", b"//", b"QQBC", b"4pyT", b"ANgA", b"AGgA"))]
        combos = rng.sample(combos, 60000) + list(itertools.product(pre, tok, plain_args, post))
    if tier == "quick":
        # every context x closer for the commands without encoded argument (where the span rule is the context rule), a sample of the rest
        plain_args = [a for a in args if not any(c in a for c in (B64[:8], b"QUJ", b"//", b"QQBC", b"4pyT", b"ANgA", b"AGgA"))]
        combos = rng.sample(combos, 2500) + list(itertools.product(pre, tok[:2], plain_args, post))
    for a, b, c, d in combos:
        out.append(a + b + c + d)
    return out


def run(prop: str, tier: str) -> int:
    use_repo()
    import regex as re

    from multidecoder.decoders import shell
    from multidecoder.multidecoder import Multidecoder

    res = Result(prop, tier, "model_checking")
    res.assumptions += ["the regular expressions that locate the cmd / powershell tokens and the encoded argument are taken from the "
                        "module under test (their languages are not modelled); spans, values and labels are",
                        "EncRewrite is judged only for base64 text that decodes to UTF-16LE code units below 0xD800 without a byte-order mark"]
    for name, cfgname, must_pass in MC:
        if tier == "quick" or True:
            r = tlc.run("ShellMC", cfgname, cache=True, timeout=3000, heap="12g")
            if must_pass:
                tlc.must_pass(r, f"ShellMC[{name}]")
                res.add("states", r.distinct)
                res.add("transitions", r.generated)
            else:
                tlc.must_violate(r, ["NoIndexError"] if "caret" in name else ["ParenRefines"], f"ShellMC[{name}]")
            res.stage(f"ShellMC[{name}]", dict(r.summary(), cached=r.cached))
    if tier == "thorough":
        big = open(os.path.join(tlc.SPEC, "ShellMC_caret.cfg")).read().replace("MaxLen = 6", "MaxLen = 7")
        r = tlc.run("ShellMC", big, cache=True, timeout=3000, heap="12g")
        tlc.must_pass(r, "ShellMC[caret, 7]")
        res.add("states", r.distinct)
        res.add("transitions", r.generated)

    rng = drivers.rng_for("shell")
    events: list[dict] = []
    # direction A ---------------------------------------------------------------------------
    for s in strings([b"^", b'"', b"\r", b"\n", b"x"], 6 if tier == "quick" else 7):
        events.append(ev_caret(shell, s))
    for s in strings([b"^", b'"', b"\r", b"\n", b"x", b"\x00", b" "], 4):        # NUL and blank join the alphabet for short strings
        if b"\x00" in s or b" " in s:
            events.append(ev_caret(shell, s))
    ncaret = len(events)
    cmd_alpha = [b"(", b")", b"x", b'"', b" ", b"^", b"\x00", b'cmd"']
    for pre in (b"cmd", b"(cmd ", b'cmd" /c', b"c^md.exe /c "):
        for s in strings(cmd_alpha, 4 if tier == "quick" else 5):
            events.append(ev_cmd(shell, re, pre + s))
    for data in ps_lattice(rng, tier):
        events.append(ev_ps(shell, re, data))
    # direction B: texts met while scanning ------------------------------------------------------
    md = Multidecoder()
    inputs = list(drivers.repo_literals()) + list(drivers.token_soup(rng, 300 if tier == "quick" else 5000))
    lits = drivers.repo_literals()
    for _ in range(300 if tier == "quick" else 5000):
        inputs.append(drivers.mutate(rng, rng.choice(lits))[:4096])
    seen = set()
    for data in inputs:
        texts = [data]
        try:
            texts += [n.value for n in md.scan(data) if n.type.startswith("shell") or n.obfuscation]
        except Exception:  # noqa: BLE001
            pass
        for t in texts:
            if t in seen or len(t) > 4096:
                continue
            seen.add(t)
            low = t.lower()
            if b"cmd" in low or b"c^" in low:
                events.append(ev_cmd(shell, re, t))
            if b"p" in low and (b"sh" in low or b"^" in low):
                events.append(ev_ps(shell, re, t))
            if b"^" in t:
                events.append(ev_caret(shell, t))
    work = scratch("shell")
    path = os.path.join(work, "ev.ndjson")
    with open(path, "w") as f:
        for ev in events:
            f.write(json.dumps(ev) + "\n")
    n = len(events)
    v, r = tlc.run_trace("ShellTrace", "SPECIFICATION Spec\nCHECK_DEADLOCK FALSE\n", path, n, max_lines=40000, max_bytes=40_000_000)
    na = 0
    for t, cl in v.items():
        if "n/a" in cl:
            na += 1
        for c in cl:
            if c in ("ACCEPT", "REJECT", "n/a"):
                continue
            ev = events[t - 1]
            data = bytes(ev.get("data", ev.get("s", [])))
            facts = {"clause": c, "kind": ev["kind"]}
            if c == "ps.end.nocontext":
                # TLC has established that the only differences are ends of commands without encoded argument and without
                # enclosing context; the finding's shape: at least one of them ends at len(data) - start
                facts["end_is_len_minus_start"] = any(h["e"] == len(data) - h["s"] and h["e"] != len(data) for h in ev["hits"]
                                                      if any(i[0] == h["s"] and i[1] < 0 for i in ev["inds"]))
            res.violation(f"ShellTrace rejects clause {c} for {ev['kind']} on {data[:160]!r}: got "
                          f"{[(h['s'], h['e'], h['ty'], bytes(h['val'])[:60], h['obf']) for h in ev.get('hits', [])][:4] if ev['kind'] != 'caret' else bytes(ev['out'])!r}"
                          f"{' raised ' + ev['raised'] if ev['raised'] else ''}",
                          facts, {"kind": "shell-event", "event": ev, "input_hex": data.hex()})
    res.coverage["traces_validated_against_impl"] = n
    res.coverage["evaluations"] = n
    res.coverage["distinct_nontrivial"] = n - na - sum(1 for e in events if e["kind"] != "caret" and not e.get("hits"))
    res.coverage["not_judged_outside_domain"] = na
    res.coverage["caret_strings"] = ncaret
    res.coverage["rule"] = ("calls of strip_carets (every string up to the bound over {^ \" CR LF x}), find_cmd_strings (every string over "
                            "{( ) x \" sp ^ NUL} behind four command prefixes), find_powershell_strings (context x token x argument x closer "
                            "lattice incl. every prefix of -encodedcommand in - and / style, quoting, carets), and the same functions on every "
                            "text met while scanning; non-trivial = judged and (for cmd / ps) at least one command reported")
    res.sample({"caret": "x^\r\n\"", "cmd": "(cmd (x)) x)", "ps": "for /f %a in ('powershell -e " + B64.decode() + "') do x"})
    return res.finish()
