"""C10, C11, C12: network indicators, URL / Windows-path parts.  Net.tla / NetTrace.tla."""
from __future__ import annotations

import itertools
import json
import os
import random
import struct

from . import drivers, tlc
from .common import MachineryError, Result, scratch, use_repo

CLAUSES = {
    "C10": {"ip.canonical", "ip.freetext", "domain.shape", "domain.freetext", "email.shape", "url.shape", "url.normalised", "url.label"},
    "C11": {"found:ip", "found:domain", "found:url", "found:email", "found:winpath", "found:path", "found:exe", "found:dll",
            "found:createobject", "found:pe"},
    "C12": {"url.parts", "url.part.span", "url.part.value", "url.part.label", "win.value", "win.label", "win.type", "win.parts"},
}
PRE = [b"", b" ", b"x = ", b"see ", b"\x00\x01 ", b"1234567 ", b"abc;\n", b", ", b"[", b"<", b"{ ", b"rem CreateObject( never closed "]
SUF = [b"", b" ", b" and more", b"\n", b", next", b" ;"]


def b2l(b: bytes) -> list[int]:
    return list(b)


NET_TOKENS = [
    b"1.2.3.4", b"10.0.0.1", b"192.168.1.10", b"255.255.255.255", b"0.0.0.0", b"1.2.3.0", b"1.2.3.255", b"010.1.1.1", b"0x7f.0.0.1", b"1.2.3.256",
    b"127.1", b"0x7f000001", b"3232235777", b"0300.0250.1.1", b"1.2.3.4.5", b"version 1.2.3.4", b"<t>1.2.3.4", b"section 1.2.3.4",
    b"example.com", b"evil-site.net", b"a.b.co.uk", b"x.y", b"ab.com", b"abc.com", b"sub.example.museum", b"xn--80ak6aa92e.com", b"foo.xn--p1ai",
    b"file.txt", b"this.value", b"object.prototype.x", b"a_b.com", b"-a.com", b"EXAMPLE.COM", b"Example.Org", b"example.c0m", b"foo.bar.baz.qux.info",
    b"user@example.com", b"first.last+tag@sub.example.org", b"a@b.co", b"x@y", b"abc@evil-site.net.",
    b"http://", b"https://", b"ftp://", b"HTTP://", b"hTTp://", b"gopher://", b"http:/", b"user@", b"user:pw@", b":pw@", b"user:@", b"@",
    b"%41", b"%7e", b"%7E", b"%4%61", b"%%36f", b"%%41", b"%2%66", b"%2f", b"%2F", b"%2e", b"%2E%2E", b"%zz", b"%", b"%5B", b"%5b::1%5d", b"[::1]", b"[2001:db8::1]",
    b":80", b":8080", b":", b":99999", b"/", b"/a", b"/a/b", b"/.", b"/..", b"/./", b"/../", b"/a/../b", b"//", b"/%2e%2e/", b"/a%2Fb",
    b"?", b"?q=1", b"?q=%41&r=%20", b"#", b"#frag", b"#f%41", b"?#", b"/?#", b".", b",", b";", b"'", b")", b"(", b'"', b" ", b"\n", b"\x00",
    b"\x1ahttp://example.com/abcdefghijklmnopqrstuvwxyz", b"\\\\host.com\\share\\", b"\\\\1.2.3.4@SSL@8080\\dav\\x.exe", b"C:\\Windows\\", b"..\\", b".\\",
    b"file.exe", b"lib.dll", b"\\\\?\\UNC\\srv.example.com\\c$\\", b"\\\\.\\C:\\", b"%APPDATA%\\", b"dir.name\\",
]


def net_soup(rng: random.Random, n: int):
    for _ in range(n):
        yield b"".join(rng.choice(NET_TOKENS) for _ in range(rng.randint(1, 7)))


def context_urls() -> list[bytes]:
    """URLs behind ' or ( whose closing character lies inside what the URL expression matches, with escapes on both sides."""
    out = []
    for opener, closer in ((b"'", b"'"), (b"(", b")"), (b"x('", b"'"), (b"=(", b")")):
        for head in (b"http://a.example.com/p", b"https://u:p@evil-site.net:8080/%7Euser/x", b"ftp://1.2.3.4/%41%2fb", b"http://ex%61mple.com/"):
            for tail in (b"", b"/more", b"%42c", b"/%7e", b"?q=%41", b"#%2F"):
                out.append(b"call " + opener + head + closer + tail + b" end")
                out.append(opener + head + b"%7E" + closer + tail)
    for opener, closer in ((b"'", b"'"), (b"(", b")")):      # punctuation right before the closing character, more URL characters behind it
        for last in (b".", b",", b";", b")", b"'", b"/", b"..", b"/v1."):
            out += [b"x = " + opener + b"http://example.com/dl" + last + closer + b"+name", opener + b"https://evil-site.net/a%41" + last + closer + b"/more.exe"]
    for opener, closer in ((b"(", b")"), (b"'", b"'")):      # the closing character sits inside the userinfo: what is left has no host
        for ui in (b":", b"@", b"u:", b"u@", b"u:p@", b":@"):
            out += [b"x = " + opener + b"http://" + ui + closer + b"+creds+" + closer + b"@host.example.com/a" + closer, opener + b"ftp://" + ui + closer + b" tail"]
    for opener, closer in ((b"(", b")"), (b"'", b"'")):      # the closing character sits before the host
        out += [opener + b"http://" + closer + b"@evil.example.com/x", b"call " + opener + b"ftp://u" + closer + b":p@host.example.org/ end",
                opener + b"https://" + closer, b"fetch" + opener + b"http://" + closer + b"@evil.example.com/payload) and run"]
    for n in (7, 8, 9, 12, 20):        # Pascal strings in binaries: a non-printable length byte before the URL, '0' at that offset in the match
        url = b"http://0day.example.com/abcdefghij"
        url = url[:n] + b"0" + url[n + 1:]
        out += [bytes(9) + bytes([n]) + url, b"\x01\x02\x03\x04\x05\x06\x07\x08\x0e" + bytes([n]) + url + b"\x00"]
    out += [b"\x05http://a.example.com/%41", b"\x00\x01\x02\x03\x04\x05\x06\x07\x08\x1fhttp://example.com/%7Eabcdefghijklmnopqrstuvwxyz0123"]
    return out


HIGH_ESCAPES = [b"http://a.example.com/%c3%a9/%fc?q=%e2%82%ac#%ff", b"see ('https://evil-site.net/caf%C3%a9%7e') now", b"ftp://1.2.3.4/%80%7F%ab"]
HOST_SHAPES = [b"192.168.01.10", b"010.1.1.1", b"1.2.3.04", b"0x7f.0.0.1", b"example.com", b"info", b"com", b".com", b"docs", b"museum", b"example.com.", b"a..com", b"example.invalidtld", b"localhost", b"a.b",
               b"-.com", b"x.co", b"name.Info", b"EXAMPLE.COM", b"1.2.3", b"999.1.1.1", b"1.2.3.4", b"sub.evil-site.net", b"xn--p1ai", b"a_b.com"]


def host_shapes() -> list[bytes]:
    """every host shape as URL host, UNC server, e-mail domain and free text: what is reported as a domain has a label, a dot and a registered suffix"""
    out = []
    for h in HOST_SHAPES:
        out += [b"http://" + h + b"/", b"see ftp://" + h + b"/x?y ", b"https://u:p@" + h + b":8080/p", b"\\\\" + h + b"\\share\\x.txt",
                b"open \\\\" + h + b"\\c$\\a.exe now", b"mail user@" + h + b" now", b" " + h + b" ", b"<" + h + b">"]
    return out


def url_lattice(rng: random.Random, tier: str) -> list[bytes]:
    schemes = [b"http", b"https", b"ftp", b"HTTP", b"hTTps"]
    users = [b"", b"u@", b"u:@", b"u:p@", b":p@", b"@", b"us%65r:p%40ss@", b"a:b:c@"]
    hosts = [b"example.com", b"sub.evil-site.net", b"1.2.3.4", b"0x7f.1", b"010.0.0.1", b"3232235777", b"127.0.0.1", b"ex%61mple.com", b"EXAMPLE.COM",
             b"localhost", b"[::1]", b"example.invalidtld", b"info", b"com", b".com", b"docs", b"example.com.", b"a..com", b"0x7f.0x0.0.0x1", b"1.2.3", b"999.1.1.1"]
    ports = [b"", b":80", b":", b":65535"]
    segs = [b".", b"..", b"a", b"", b"%2F", b"%41", b"%2e", b"b.c", b"...", b"%4%61", b"%%36f"]
    paths = [b"", b"/"] + [b"/" + b"/".join(c) for n in (1, 2, 3) for c in itertools.product(segs, repeat=n)]
    if tier == "quick":
        paths = paths[:12] + rng.sample(paths[12:], 60)
    queries = [b"", b"?", b"?q", b"?q=%41%2f&x=%zz"]
    frags = [b"", b"#", b"#f", b"#%46rag", b"##s?x", b"#a?b#c"]
    out = []
    combos = list(itertools.product(schemes, users, hosts, ports, queries, frags))
    rng.shuffle(combos)
    for i, (s, u, h, p, q, f) in enumerate(combos[: 1500 if tier == "quick" else 30000]):
        out.append(s + b"://" + u + h + p + paths[i % len(paths)] + q + f)
    for pth in paths:
        out.append(b"http://example.com" + pth)
    return out


def win_lattice(rng: random.Random, tier: str) -> list[bytes]:
    prefixes = [b"C:\\", b"c:", b"\\", b"", b"\\\\host.example.com\\share\\", b"\\\\1.2.3.4\\c$\\", b"\\\\010.1.1.1@SSL@8080\\dav\\",
                b"\\\\.\\C:\\", b"\\\\?\\UNC\\srv.example.org\\share\\", b"\\\\?\\Volume{01234567-89ab-cdef-0123-456789abcdef}\\", b"\\\\?\\UNC\\10.0.0.300\\c$\\",
                b"\\\\notadomain\\share\\"]
    # (a directory may carry the same text as the file name: the file-name child is the *last* component)
    segs = [b".", b"..", b"dir", b"Program.Files", b"a-b", b"sub", b"file.exe", b"readme.txt.bak"]
    names = [b"file.exe", b"lib.DLL", b"readme.txt", b"noext", b".hidden", b"a.b.c", b"...."]
    out = []
    for pre in prefixes:
        for n in (1, 2, 3):
            for c in itertools.product(segs, repeat=n):
                out.append(pre + b"\\".join(c) + b"\\" + names[(len(out)) % len(names)])
    if tier == "quick":
        out = rng.sample(out, 700)
    return out


def mini_pe(nsec: int, trailing: int, rng: random.Random, order: str = "file", bss: bool = False, dos_fill: int = 0,
            e_lfanew: int = 0x80, nrva: int = 16) -> bytes:
    """A structurally valid PE file: DOS header, PE signature, COFF header, optional header, section table, raw data."""
    dos = b"MZ" + bytes([dos_fill]) * 0x3A + struct.pack("<I", e_lfanew)       # (the DOS header fields are free-form for carving)
    dos += bytes(e_lfanew - len(dos))
    opt_size = 0xE0
    coff = struct.pack("<HHIIIHH", 0x14C, nsec, 0, 0, 0, opt_size, 0x0102)
    opt = struct.pack("<H", 0x10B) + bytes(opt_size - 2)
    opt = opt[:0x20] + struct.pack("<II", 0x1000, 0x200) + opt[0x28:]          # SectionAlignment, FileAlignment
    opt = opt[:0x5C] + struct.pack("<I", nrva) + opt[0x60:]                     # NumberOfRvaAndSizes
    if nrva < 16:                      # a "tiny" PE: the optional header ends with the data directories it declares
        opt_size = 0x60 + 8 * nrva
        opt = opt[:opt_size]
        coff = struct.pack("<HHIIIHH", 0x14C, nsec, 0, 0, 0, opt_size, 0x0102)
    hdr_len = e_lfanew + 4 + len(coff) + opt_size + 40 * nsec
    raw_start = (hdr_len + 0x1FF) // 0x200 * 0x200
    entries = []
    body = b""
    for i in range(nsec):
        size = 0x200
        name = (b".s%d" % i).ljust(8, b"\0")
        if bss and i == nsec - 1:      # an uninitialised-data section: no raw data at all
            entries.append(b".bss\0\0\0\0" + struct.pack("<IIIIIIHHI", 0x1000, 0x1000 * (i + 1), 0, 0, 0, 0, 0, 0, 0xC0000080))
            continue
        entries.append(name + struct.pack("<IIIIIIHHI", size, 0x1000 * (i + 1), size, raw_start + len(body), 0, 0, 0, 0, 0x60000020))
        body += bytes(rng.randrange(1, 256) for _ in range(8)) + bytes(size - 8)
    if order == "reverse":             # the table need not list the sections in file order
        entries = entries[::-1] if not bss else entries[:-1][::-1] + entries[-1:]
    secs = b"".join(entries)
    pe = dos + b"PE\0\0" + coff + opt + secs
    pe += bytes(raw_start - len(pe)) + body
    return pe + bytes(rng.randrange(256) for _ in range(trailing))


def instances(rng: random.Random, tier: str) -> list[dict]:
    out = []

    def add(what: str, blob: bytes, neutral: bool = True, **kw):
        out.append(dict({"kind": "inst", "what": what, "blob": b2l(blob), "neutral": neutral}, **kw))

    octs = [0, 1, 9, 10, 99, 100, 127, 199, 200, 249, 250, 254, 255]
    for _ in range(120 if tier == "quick" else 2500):
        add("ip", b".".join(str(rng.choice(octs)).encode() for _ in range(4)))
    for bad in (b"1.2.3.256", b"01.2.3.4", b"1.2.3", b"0.0.0.0", b"1.2.3.0", b"1.2.3.255", b"1.2.3.4.5"[:7]):
        add("ip", bad)
    # on both sides of the documented section / version number contexts (Net.IpContextSuppressed decides which side)
    for pre_ in (b"<t>", b"<t> ", b"<w:t>", b"<w:t>\t\n", b"<w:tt>", b"<:t>", b"<w-x:t>", b"<a:b:t>", b"< w:t>", b"t>", b":t> ", b"<T>", b"<w:t> x ",
                 b"section ", b"Section\t", b"SECTION  ", b"sec. ", b"Sec.\n", b"sec ", b"section: ", b"sections ", b"subsection ", b"section", b"sec.",
                 b"version ", b"Version=\"", b"version\x00\x00", b"ersion ", b"version: ", b"version 2 ", b"Version      ", b"version           ", b"versions ",
                 b"version\t=\t\"", b"ersio ", b"conversion ", b"version-", b"v ", b"file version is "):
        add("ip", b"10.1.2.3", pre_override=b2l(pre_))
        add("ip", b"192.168.1.10", pre_override=b2l(b"x " + pre_))
    # on both sides of every documented false-positive rule (Net.FalsePositiveDomain decides which side): roots and endings
    # from the two tables and next to them, one-letter roots, "this.", x.prototype.y, name.Capitalised, iterator ... .next
    roots = [b"a", b"x", b"ab", b"data", b"datax", b"user", b"users", b"wscript", b"this", b"thisx", b"object", b"e-mail", b"email", b"zone", b"org"]
    ends = [b"com", b"io", b"info", b"app", b"zone", b"top", b"pl", b"sh", b"so", b"next", b"net", b"museum", b"id", b"is", b"it", b"de"]
    for r_ in roots:
        for e_ in ends:
            add("domain", r_ + b"." + e_)
            add("domain", r_ + b".example." + e_)
    for d_ in (b"this.example.com", b"This.Example.com", b"thisis.example.com", b"a.prototype.is", b"ab.prototype.io", b"abc.prototype.is", b"a.prototype.com",
               b"a.prototypes.is", b"obj.Example.com", b"obj.EXample.com", b"obj.Ex.com", b"obj.E.com", b"Obj.Example.com", b"obj1.Example.com", b"ob-j.Example.com",
               b"my.iterator.next", b"iterator.next", b"myiteratorx.y.next", b"iter.ator.next", b"libfoo.so", b"libc.so", b"example.Museum", b"www.exampleCom.com",
               b"x.example.Com", b"docs.google.com", b"a.b.c.d.io", b"function.name", b"function.names", b"functions.name"):
        add("domain", d_)
    labels = [b"ab", b"example", b"evil-site", b"x1", b"a" * 63, b"sub", b"9gag", b"my-host2", b"a", b"data", b"user"]
    tlds = [b"com", b"net", b"org", b"museum", b"co.uk", b"io", b"xn--p1ai", b"invalidtld", b"c0m", b"info", b"de", b"COM"]
    for _ in range(150 if tier == "quick" else 3000):
        n = rng.randint(1, 3)
        add("domain", b".".join(rng.choice(labels) for _ in range(n)) + b"." + rng.choice(tlds))
    for u in url_lattice(rng, tier)[: 200 if tier == "quick" else 4000]:
        # trailing characters a URL cannot end with (' ) , . ;) would be cut off by design: keep those out of the instances
        import re as _re

        host = _re.match(rb"(?i)[a-z]+://(?:[^@/]*@)?([^:/?#]*)", u).group(1)
        # (hosts the URL expression is not written for - shorter than four characters, a bare label, empty labels - are
        # met as nodes by C10 / C12 when they occur, but are not demanded as instances)
        hostlike = len(host) >= 4 and b"." in host.strip(b".") and not host.startswith(b".") and b".." not in host and not host.endswith(b".")
        add("url", u, neutral=hostlike and not u.endswith((b"'", b")", b",", b".", b";")) and b"[" not in u and b"(" not in u)
    for u in (b"http://[2001:db8::1]/a", b"https://[::1]:8080/x?y=1", b"ftp://u:p@[fe80::1]/", b"http://[2001:DB8:0:0:0:0:0:1]/"):
        for _rep in range(4):          # (bracketed hosts, under several of the rotating prefixes, among them an opening bracket)
            add("url", u)
    for _ in range(60 if tier == "quick" else 1000):
        local = rng.choice([b"user", b"first.last", b"a+b", b"x_y%z", b"abc"])
        add("email", local + b"@" + rng.choice(labels[2:5]) + b"." + rng.choice(tlds[:4]))
    for dom in (b"email.it", b"data.services", b"x.example.io", b"this.company.com", b"user.name", b"system.email", b"a.info", b"object.id"):
        for local in (b"billing", b"ops.team", b"a+b"):
            add("email", local + b"@" + dom)
    for p in win_lattice(rng, tier)[: 120 if tier == "quick" else 2000]:
        add("winpath", p)
    for _ in range(60 if tier == "quick" else 800):
        segs = [rng.choice([b"usr", b"bin", b"local", b"etc", b"home", b"var_log", b"abc123"]) for _ in range(rng.randint(1, 4))]
        add("path", rng.choice([b"", b".", b".."]) + b"/" + b"/".join(segs) + b"/" + rng.choice([b"file.txt", b"python3", b"a.b.c", b"passwd"]))
    for _ in range(40 if tier == "quick" else 500):
        stem = rng.choice([b"file", b"a", b"setup_1", b"X9", b"my_lib"])
        add("exe", stem + rng.choice([b".exe", b".EXE", b".Exe"]))
        add("dll", stem + rng.choice([b".dll", b".DLL"]))
    for inner in (b"'WScript.Shell'", b'"Scripting.FileSystemObject"', b"a(b)c", b"((x))", b"", b"f(1,(2,3)) & g()", b'"x" & chr(41)',
                  b'IIf(ver < 6, "a", "b")', b'"{"', b"x[1", b"a<b>c", b"}]>", b'"{72C24DD5-D70A-438B-8A42-98424B88AFB8}"'):
        for name in (b"CreateObject", b"createobject", b"CREATEOBJECT"):
            add("createobject", name + b"(" + inner + b")")
    for nsec in (1, 2, 3):
        for trailing in (0, 16):
            add("pe", mini_pe(nsec, 0, rng), trailing=trailing)
    for fill in (0x0A, 0x0D, 0xFF, 0x4D):
        add("pe", mini_pe(2, 0, rng, dos_fill=fill), trailing=4)
    for nsec in (2, 3, 4):
        add("pe", mini_pe(nsec, 0, rng, order="reverse"), trailing=8)
        add("pe", mini_pe(nsec, 0, rng, bss=True), trailing=8)
        add("pe", mini_pe(nsec, 0, rng, order="reverse", bss=True), trailing=0)
    # headers that do not fit in the first few hundred bytes: a long DOS stub, a long section table
    for lfanew, nsec in ((0x40, 1), (0x100, 2), (0x300, 1), (0x3F0, 2), (0x400, 1), (0x1000, 2), (0x80, 17), (0x80, 24), (0x200, 40)):
        add("pe", mini_pe(nsec, 0, rng, e_lfanew=lfanew), trailing=8)
    for nrva in (0, 1, 4, 5, 15):      # fewer data directories than the usual sixteen
        add("pe", mini_pe(2, 0, rng, nrva=nrva), trailing=8)
    return out


def found_at(tree) -> list[dict]:
    out = []

    def walk(n, off):
        for c in n.children:
            out.append({"ty": c.type, "obf": c.obfuscation, "val": b2l(c.value), "s": off + c.start, "e": off + c.end})
            if c.value.lower() == n.value[c.start:c.end].lower() and c.start >= 0:
                walk(c, off + c.start)

    walk(tree, 0)
    return out


def kids_of(n) -> list[dict]:
    return [{"ty": c.type, "obf": c.obfuscation, "val": b2l(c.value), "s": c.start, "e": c.end} for c in n.children]


def node_events(tree, prop: str) -> list[dict]:
    out = []

    def walk(n):
        for c in n.children:
            cov = n.value[c.start:c.end]
            if prop == "C10" and c.type.startswith("network.") and not c.type.startswith("network.url."):
                out.append({"kind": "net", "ty": c.type, "obf": c.obfuscation, "cov": b2l(cov), "val": b2l(c.value), "pty": n.type})
            if prop == "C12" and c.type == "network.url":
                out.append({"kind": "url", "val": b2l(c.value), "cov": b2l(cov), "kids": kids_of(c)})
            if prop == "C12" and c.type in ("windows.path", "windows.unc.path", "windows.device.path"):
                # a path node without decoder-supplied children is searched by the engine, which may attach further
                # results to it; what the path decoder itself supplied is taken from the decoder, called on the covered text
                from multidecoder.decoders.path import find_windows_path

                own = [h for h in find_windows_path(cov) if h.start == 0 and h.end == len(cov)]
                for h in own[:1]:
                    out.append({"kind": "winpath", "ty": c.type, "obf": c.obfuscation, "val": b2l(c.value), "cov": b2l(cov), "kids": kids_of(h),
                                "same": h.value == c.value and h.type == c.type and h.obfuscation == c.obfuscation})
            walk(c)

    walk(tree)
    return out


def run(prop: str, tier: str) -> int:
    use_repo()
    from multidecoder.decoders import network, path
    from multidecoder.domains import TOP_LEVEL_DOMAINS
    from multidecoder.multidecoder import Multidecoder
    from multidecoder.node import Node

    res = Result(prop, tier, "model_checking" if prop == "C12" else "exploration")
    if prop == "C12":
        r0 = tlc.run("UrlMC", "UrlMC.cfg", cache=True, timeout=600)
        tlc.must_pass(r0, "UrlMC")
        res.add("states", r0.distinct)
        res.add("transitions", r0.generated)
        res.stage("UrlMC (offset walk of parse_url / parse_authority vs span spec, 972 URLs)", dict(r0.summary(), cached=r0.cached,
                                                                                                  invariants=["SpansAgree", "SelectsText"]))
        r1 = tlc.run("UrlMC", "UrlMC_asis.cfg", cache=True, timeout=600)
        tlc.must_violate(r1, ["SpansAgree"], "UrlMC[asis]")
        res.stage("UrlMC[Variant=asis]", dict(r1.summary(), expected_violation="SpansAgree"))
    res.assumptions += ["'registered top-level domain' means the table as shipped at the pinned commit (spec/tlds_pinned.json, 1,479 entries); "
                        "a legitimate update of domains.py needs that snapshot updated with it",
                        "regular-expression languages (where an indicator starts and stops in free text) are sampled, not modelled",
                        "IPv6 hosts and hosts that keep a percent-escape after normalisation are outside the judged domain (counted as n/a)"]
    rng = drivers.rng_for("net:" + prop)
    md = Multidecoder()
    work = scratch("net")
    tld_file = os.path.join(work, "tlds.json")
    # "registered" = the table as shipped at the pinned commit (spec/tlds_pinned.json); offline there is no other oracle.
    # TLC judges with the pinned table; where the tree's table differs, the difference itself is turned into inputs.
    with open(os.path.join(tlc.SPEC, "tlds_pinned.json")) as f:
        pinned = {t.encode() for t in json.load(f)}
    with open(tld_file, "w") as f:
        json.dump([b2l(t) for t in sorted(pinned)], f)
    fpos_file = os.path.join(work, "fpos.json")
    with open(os.path.join(tlc.SPEC, "domain_fpos_pinned.json")) as f:
        fp = json.load(f)
    with open(fpos_file, "w") as f:
        json.dump({"root": [b2l(x.encode()) for x in fp["root_fpos"]], "tld": [b2l(x.encode()) for x in fp["tld_fpos"]]}, f)
    table = {bytes(t) for t in TOP_LEVEL_DOMAINS}
    tld_added, tld_removed = sorted(table - pinned)[:40], sorted(pinned - table)[:40]
    events: list[dict] = []
    seen: set[str] = set()

    def push(ev: dict) -> None:
        key = json.dumps(ev, sort_keys=True)
        if key not in seen:
            seen.add(key)
            events.append(ev)

    inputs = list(drivers.repo_literals()) + list(net_soup(rng, 800 if tier == "quick" else 15000))
    inputs += list(drivers.token_soup(rng, 200 if tier == "quick" else 3000))
    inputs += context_urls() + host_shapes() + HIGH_ESCAPES
    for t in tld_added:        # entries the pinned table does not have: whatever is reported under them is judged against the pinned table
        inputs += [b"see portal.members." + t.lower() + b" now", b"http://www.example." + t.lower() + b"/x", b"mail admin@corp-mail." + t.lower() + b" now"]
    if prop == "C11":
        from . import helpers_stage

        helpers_stage.run(res, "brace", tier)
        insts = instances(rng, tier)
        for t in tld_removed:  # entries of the pinned table that the tree's table lost: names under them are still domains
            insts.append({"kind": "inst", "what": "domain", "blob": b2l(b"example-host." + t.lower()), "neutral": True})
        for i, inst in enumerate(insts):
            pre, suf = PRE[i % len(PRE)], SUF[(i // len(PRE)) % len(SUF)]
            if "pre_override" in inst:
                pre = bytes(inst.pop("pre_override"))
            blob = bytes(inst["blob"])
            if inst["what"] == "url" and pre and blob[pre[-1]:pre[-1] + 1] == b"0" and any(c < 32 or c > 126 for c in pre[-10:]):
                # the documented Pascal-string rule: a non-printable byte n before the URL whose n-th character is '0' is read as a
                # length byte and cuts the URL there - such a prefix is not a neutral delimiter for this instance
                inst["neutral"] = False
            if inst["what"] == "pe":
                suf = bytes(rng.randrange(256) for _ in range(inst.pop("trailing", 0)))
                pre = rng.choice([b"", b"junk \x00\x01", b"MZ not a pe "])
            try:
                if inst["what"] in ("domain", "url", "email", "ip"):
                    # history: the same indicator in other letter cases / surroundings was scanned before by this very scanner
                    parts = blob.split(b".")
                    if len(parts) > 1:      # first a spelling that one of the documented false-positive shapes rejects (name.Capitalised)
                        md.scan(b" " + b".".join([parts[0].lower(), parts[1].capitalize()] + parts[2:]) + b" ")
                    md.scan(b"obj." + blob.title() + b" = " + blob.upper() + b";")
                tree = md.scan(pre + blob + suf)
                found = found_at(tree)
            except Exception as e:  # noqa: BLE001
                found = []
                inst["raised"] = type(e).__name__
            push(dict(inst, pre=b2l(pre), suf=b2l(suf), found=found))
    else:
        if prop == "C12":
            # direction A: the component lattice through the real decoders (as a top-level hit, children included)
            for u in url_lattice(rng, tier):
                for hit in network.find_urls(u):
                    root = Node("", u, "", 0, len(u), children=[hit])
                    for ev in node_events(root, prop):
                        push(ev)
            for p in win_lattice(rng, tier):
                for hit in path.find_windows_path(p):
                    root = Node("", p, "", 0, len(p), children=[hit])
                    for ev in node_events(root, prop):
                        push(ev)
            inputs += url_lattice(rng, tier)[:: 4] + win_lattice(rng, tier)[:: 4]
        for data in inputs:
            try:
                tree = md.scan(data)
            except Exception:  # noqa: BLE001
                continue
            for ev in node_events(tree, prop):
                push(ev)
    path_ = os.path.join(work, "ev.ndjson")
    with open(path_, "w") as f:
        for ev in events:
            f.write(json.dumps(ev) + "\n")
    n = len(events)
    cfg = "CONSTANT TLDs <- TldSet\nSPECIFICATION Spec\nCHECK_DEADLOCK FALSE\n"
    v, r = tlc.run_trace("NetTrace", cfg, path_, n, env={"TLD_FILE": tld_file, "FPOS_FILE": fpos_file}, max_lines=40000, max_bytes=40_000_000)
    na = sum(1 for cl in v.values() if "n/a" in cl)
    for t, cl in v.items():
        for c in cl:
            if c in CLAUSES[prop]:
                ev = events[t - 1]
                if ev["kind"] == "inst":
                    what = (f"{ev['what']} instance {bytes(ev['blob'])[:100]!r} between {bytes(ev['pre'])!r} and {bytes(ev['suf'])[:20]!r} not reported with its "
                            f"type, canonical value and exact span; nodes there: {[(f['ty'], f['s'], f['e'], bytes(f['val'])[:40]) for f in ev['found']][:6]}")
                    facts = {"clause": c}
                else:
                    what = (f"{ev['kind']} node value {bytes(ev['val'])[:100]!r} covering {bytes(ev['cov'])[:100]!r}: clause {c}; "
                            f"children {[(k['ty'], k['s'], k['e'], bytes(k['val'])[:30], k['obf']) for k in ev.get('kids', [])]}")
                    facts = {"clause": c, "kind": ev["kind"]}
                res.violation(what, facts, {"kind": "net-event", "event": ev,
                                            "input_hex": (bytes(ev.get("pre", [])) + bytes(ev.get("blob", ev.get("cov", []))) + bytes(ev.get("suf", []))).hex()})
    notes = sum(1 for cl in v.values() if "note.falsepositive.reported" in cl)
    if prop == "C11":
        res.coverage["beyond_listed_properties"] = {
            "judged": "documented false-positive shapes (Net.FalsePositiveDomain): a name inside one of them is not reported as a free-text domain",
            "suppressed_shapes_reported_anyway": notes}
        if notes:
            print(f"NOTE beyond the listed properties: {notes} name(s) inside a documented false-positive shape were reported as domains")
    res.coverage["evaluations"] = n
    res.coverage["distinct_nontrivial"] = n - na
    res.coverage["not_judged_outside_domain"] = na
    res.coverage["traces_validated_against_impl"] = n
    res.coverage["rule"] = ("distinct events: network / URL / windows-path nodes of real scans (network token soup, repository literals, URL component "
                            "lattice, path lattice) or indicator instances between neutral delimiters; non-trivial = judged by TLC")
    for e in events[:3]:
        res.sample({k: (bytes(x).decode("latin-1") if isinstance(x, list) and k in ("blob", "cov", "val") else x)
                    for k, x in e.items() if k in ("kind", "what", "blob", "ty", "obf", "cov", "val")})
    return res.finish()
