"""C01: scanning is total.  Scan.tla (termination, the out-of-bounds demonstration) + Session.tla on recorded sessions.

The drivers enumerate, for every conversion site named in the property's anchors, all strings over that site's
critical alphabet up to a bound behind its trigger prefixes, plus grids (xor keys, code points, PE headers, byte
arrays), repository inputs under mutation, token soup and binary garbage, with depth limits of every sign."""
from __future__ import annotations

import itertools
import json
import multiprocessing as mp
import os
import signal
import struct
import subprocess
import sys
import time
import warnings

from . import drivers, engine, tlc
from .common import NCPU, PY, VERIF, MachineryError, Result, scratch, use_repo

VIEWS = ["flatten", "iterate", "summary", "json", "json_back"]
HANG_S = 20          # first pass (in-process alarm); confirmed with 60 s in an isolated process
DEPTHS = [-5, 0, 1, 2, 10, 10**6, 2**31, 2**63 - 1, -2**31]


def strings(alphabet, maxlen):
    for n in range(maxlen + 1):
        for t in itertools.product(alphabet, repeat=n):
            yield b"".join(t)


def pe_grid(rng, tier):
    """Truncated / malformed PE headers: e_lfanew, section count, raw pointer and size, truncation point."""
    from .props_net import mini_pe

    out = []
    base = mini_pe(2, 0, rng)
    sec0 = 0x80 + 4 + 20 + 0xE0
    lf_values = [0, 4, 0x3C, 0x40, 0x80, 0x81, 0x1000, 0x7FFFFFFF, 0xFFFFFFFF, len(base) - 2]
    for lf in lf_values:
        b = bytearray(base)
        b[0x3C:0x40] = struct.pack("<I", lf)
        out.append(bytes(b))
    for nsec in (0, 1, 2, 3, 96, 0xFFFF):
        b = bytearray(base)
        b[0x86:0x88] = struct.pack("<H", nsec)
        out.append(bytes(b))
    for ptr, size in itertools.product([0, 1, 0x200, 0x400, len(base), len(base) + 1, 0x7FFFFFFF, 0xFFFFFFFF], [0, 1, 0x200, 0x10000, 0xFFFFFFFF]):
        b = bytearray(base)
        b[sec0 + 16:sec0 + 24] = struct.pack("<II", size, ptr)
        out.append(bytes(b))
    cuts = list(range(0, 0x60, 4)) + list(range(0x78, 0x1F0, 8 if tier == "quick" else 1)) + [len(base) - 1, len(base) - 0x1FF, len(base) - 0x201]
    for c in cuts:
        out.append(base[:c])
    out += [b"junk" + x + b"tail" for x in out[:: 7]]
    for nrva in (0, 1, 2, 4, 5, 15, 17, 0xFFFFFFFF):       # NumberOfRvaAndSizes: fewer (or absurdly more) data directories than sixteen
        b = bytearray(base)
        b[0x80 + 4 + 20 + 0x5C:0x80 + 4 + 20 + 0x60] = struct.pack("<I", nrva & 0xFFFFFFFF)
        out.append(bytes(b))
        if nrva < 16:
            out.append(mini_pe(2, 0, rng, nrva=nrva))
            out.append(b"junk " + mini_pe(1, 0, rng, nrva=nrva) + b" tail")
    out += [base + base, base[:0x400] + base, b"MZ" * 40, b"MZ" + bytes(0x3A) + struct.pack("<I", 0x40) + b"PE\0\0"]
    return out


def inputs_for(tier: str, rng) -> list[tuple[bytes, int]]:
    big = tier == "thorough"
    data: list[bytes] = []
    # shell: carets, quotes, line ends, parentheses behind the command tokens
    sh = [b"^", b'"', b"'", b"\r", b"\n", b" ", b"(", b")", b"x", b" -e ", b"/e ", b"AAAA"]
    for pre in (b"cmd", b"powershell", b"'powershell", b"('powershell", b"cmd /c powershell"):
        for s in strings(sh, 4 if big else 3):
            data.append(pre + s)
    # xml references
    xm = [b"&#", b"x", b"0", b"9", b"a", b"z", b";", b"300", b"256", b"65"]
    for s in strings(xm, 5 if big else 4):
        if s.count(b"&#") >= 1:
            data.append(s * 2 + b"&#65;&#66;&#67;&#68;&#69;")
    data += [b"&#x%s;" % h * 5 for h in (b"zz", b"g0", b"0g", b"ff", b"FF", b"1", b"123")]
    # xor keys x call forms; numeric parameters outside the byte range
    for k in (range(0, 1000) if big else list(range(0, 1000, 13)) + [255, 256, 257, 999]):
        for form in (b"-bxor %d FromBase64String('ZHVjaw==')", b"FromHexString('6475636b6475636b6475636b') -xor %d",
                     b"1,2,3 -bxor\t%d [System.Convert]::FromBase64String(\"ZHVjaw==\")"):
            data.append(form % k)
    arr = b",".join(b"%d" % (i % 256) for i in range(520))
    data += [arr + b" -bxor 7", arr + b" -bxor 700", arr + b" -bxor $k", b"0x41," * 510 + b"0x42 -bxor", b"300," * 510 + b"1", b"256,1," * 260 + b"1 -bxor 1"]
    for n in (20, 50, 99, 100, 101, 128, 150, 200, 255, 256, 257, 300, 400, 499, 500, 501, 502, 512):      # around every plausible length threshold
        vals = list(range(256))
        rng.shuffle(vals)
        distinct = b",".join(b"%d" % vals[i % 256] for i in range(n))           # pairwise distinct up to 256: nothing for a key guesser to count
        data += [distinct + b" -bxor $key", distinct + b" -bxor", b"$b = " + distinct + b";", b"0x%02x," % 7 * (n - 1) + b"0x08 -bxor $k"]
    for odd in (b"0X41", b"0x4F", b"065", b"007", b"0x0", b"00x41", b"256", b"999", b"0XFF"):
        data.append(b"1," * 255 + odd + b"," + b"2," * 254 + b"3")          # one oddly spelled element among 510
        data.append((odd + b",") * 505 + b"1 -bxor 7")
    for period in (1, 2, 3, 4, 5, 8, 13, 20, 40):
        plain = (b"This program cannot be run in DOS mode. " * 40)[: 520 if not big else 1500]
        key = bytes(rng.randrange(1, 256) for _ in range(period))
        data.append(b",".join(b"%d" % (c ^ key[i % period]) for i, c in enumerate(plain)) + b" -bxor $key")
    data.append(b",".join(b"%d" % rng.randrange(256) for _ in range(600)) + b"-bxor")
    data.append(b",".join(b"%d" % (i % 2) for i in range(700)) + b" -bxor $k")
    # chr / code points
    for cp in (range(0, 100000, 1 if big else 37)):
        data.append(b"chrw(%d)" % cp)
    data += [b"chr(99999)", b"chr(0000055296)", b"ChrB(00000)", b"chr(1114111)", b"chr(1114112)"]
    # base64 / hex malformed
    b64a = [b"A", b"=", b"/", b"+", b"\n", b"&#13;", b"&#xA", b"<\x00  \x00", b"AAAA", b"%"]
    for s in strings(b64a, 3):
        data.append(b"QUJDREVGR0hJSktMTU5PUFFSU1RVVldYWVo=" + s + b"YWJjZGVmZ2hpamtsbW5vcA")
    for call in (b"atob('%s')", b"Base64Decode(\"%s\")", b"FromBase64String('%s')"):
        for arg in (b"A", b"AA", b"AAA", b"AAAA", b"A=", b"A==", b"AA=", b"====", b"QUJD=", b"QUJD==", b"Q", b"QUJDRA"):
            data.append(call % arg)
    data += [b"0" * 19, b"0" * 20, b"0" * 21, b"aA" * 12, b"FromHexString('" + b"0g" * 12 + b"')", b"FromHexString('" + b"ab" * 9 + b"a')"]
    # network / path oddities
    data += [b"http://[::1", b"http://[::1]:99999/", b"http://a.example.com:/", b"http://%5B::1%5D/", b"http://[zz]/", b"https://[1.2.3.4]/",
             b"http://u:p@[::1]:1/", b"ftp://1.2.3.4:65536/x", b"http://example.com:66000/", b"\\\\[::1]\\share\\a.exe", b"\\\\?\\UNC\\\\\\x.exe",
             b"\\\\.\\UNC\\", b"\\\\?\\UNC\\a", b"x:\\..\\..\\..\\a.b", b"http://999.999.999.999/", b"http://0x100000000/", b"http://1.2.3.4.5/", b"://", b"http://%zz/",
             b"user@" * 50 + b"example.com", b"a." * 200 + b"com", b"http://" + b"a" * 300 + b".com/", b"1." * 100 + b"1"]
    # IPv4-shaped tokens: every combination of octet spellings (decimal, zero-padded incl. 08 / 09, octal-looking, hex, out of range)
    octs = [b"1", b"08", b"09", b"010", b"0x1f", b"256", b"0", b"00", b"0x", b"255", b"0377", b"0x100"]
    for t in itertools.product(octs, repeat=4) if big else [tuple(rng.choice(octs) for _ in range(4)) for _ in range(2500)]:
        data.append(rng.choice([b"", b"ip ", b"http://"]) + b".".join(t) + rng.choice([b"", b"/x", b" "]))
    for o in octs:
        data += [b"10.0.0." + o, b"192.168." + o + b".1", o + b".1.1.1", b"\\\\10.0." + o + b".1\\share\\a.exe"]
    data += pe_grid(rng, tier)
    # unbalanced quotes / parentheses for the string decoders
    qs = [b'"', b"'", b"`", b"\\", b"+", b"&", b" ", b"a", b".replace(", b"reverse(", b")", b",", b"/", b"-replace", b"unescape('", b"createobject("]
    for s in strings(qs, 4 if big else 3):
        data.append(s)
    # very long runs of one special token, with and without an opener before / a closer after them
    specials = [b"\\", b"\\\\", b'\\"', b'""', b"''", b"`\"", b"^", b"^^", b"(", b")", b"((", b"%", b"%2", b"&#", b"&#1;", b"=", b"A=", b"/", b"./", b"../", b"\\..",
                b" ", b"\r", b"\r\n", b"+", b"&", b"_", b" + ", b"a.", b".a", b"@", b"a@", b":", b"0,", b"0x", b"-e ", b" /c ", b"\x00"]
    for tok in specials:
        for n in (30, 200) if not big else (30, 60, 200, 1000):
            for opener, closer in ((b"", b""), (b'"', b""), (b"'", b""), (b'x = "', b'" + "'), (b"cmd /c ", b""), (b"http://a.b/", b""), (b"unescape('", b"")):
                data.append((opener + tok * n + closer)[:4096])
    # URLs behind a non-printable length byte that cuts them inside a bracketed host, a port, the userinfo
    for url in (b"http://[::10:1000:0]/abc0def", b"http://u0:p0@[2001:db8::10]:8080/x0", b"https://a0.example.com:80800/p0?q=0#0", b"ftp://00.00.00.00/0"):
        for n in range(4, len(url)):
            if url[n:n + 1] == b"0":
                data.append(bytes(9) + bytes([n]) + url)
                data.append(b"\x01\x02\x03\x04\x05\x06\x07\x08\x0e\x0f" + bytes([n]) + url + b" tail")
    # UTF-16 runs separated / followed / preceded by 1..6 NUL bytes, runs of odd byte length, a lone trailing byte
    u16 = lambda t: b"".join(bytes([c, 0]) for c in t)          # noqa: E731
    for n in range(0, 7):
        data += [u16(b"kernel32.dll") + bytes(n) + u16(b"VirtualAlloc"), b"x" + bytes(n) + u16(b"http://evil-site.net/a"), u16(b"powershell -e") + bytes(n) + b"A",
                 u16(b"evil-site.net")[:-1] + bytes(n) + u16(b"cmd.exe /c"), bytes(n) + u16(b"1.2.3.4 and more") + bytes(n)]
    # %uXXXX escapes (JavaScript unescape): every plane boundary and the surrogate range, both hex cases, truncated forms
    for cp in (0x0, 0x41, 0x7f, 0x80, 0xff, 0x100, 0x7ff, 0x800, 0xd7ff, 0xd800, 0xd9eb, 0xdbff, 0xdc00, 0xdfff, 0xe000, 0xfffe, 0xffff):
        for fmt in (b"%%u%04x", b"%%u%04X", b"%%U%04x"):
            e = fmt % cp
            data += [b"unescape('" + e + b"')", b"unescape(\"a" + e + e + b"b\")", b"x = unescape('%41" + e + b"%zz');"]
    data += [b"unescape('%u')", b"unescape('%u12')", b"unescape('%u12g4')", b"unescape('%ud800%udc00')", b"unescape('%udc00%ud800')"]
    # percent-escapes inside a bracketed host, the userinfo, the port (normalisation rewrites them before the URL is parsed)
    for host in (b"[1::ffff]", b"[::1]", b"[2001:db8::10]", b"[v1.a]", b"[::ffff:1.2.3.4]", b"1.2.3.4", b"a.example.com", b"[fe80::1%25eth0]"):
        for esc in (b"%41", b"%3A", b"%3a", b"%5D", b"%5B", b"%25", b"%30", b"%2E", b"%2f", b"%40", b"%7E", b"%00", b"%g1", b"%"):
            for pos in sorted({1, len(host) // 2, len(host) - 1, len(host)}):
                h = host[:pos] + esc + host[pos:]
                data += [b"http://" + h + b"/", b"see ('https://u:p@" + h + b":80/x') now", b"ftp://" + h + b":" + esc + b"/"]
    # repository inputs, mutations, token soup, binary garbage
    lits = drivers.repo_literals()
    data += lits
    for _ in range(2000 if not big else 40000):
        d = rng.choice(lits)
        for _m in range(rng.randint(1, 4)):
            d = drivers.mutate(rng, d)
        data.append(d[:4096])
    data += list(drivers.token_soup(rng, 1500 if not big else 30000, 10))
    for _ in range(300 if not big else 5000):
        data.append(bytes(rng.randrange(256) for _ in range(rng.choice([1, 7, 64, 300, 1500]))))
    data += list(drivers.nested(rng, 100 if not big else 2000, 6))
    for n in range(40):
        tail = rng.choice(KW_TAILS)
        data.append(bytes(rng.choice(b"xyz ;") for _ in range(rng.choice([60, 120, 250]))) + b" " + tail)
        data.append(bytes(rng.choice(b"xyz ;") for _ in range(rng.choice([20, 40, 60, 120]))))
    out = []
    for i, d in enumerate(data):
        k = 10 if i % 3 else DEPTHS[(i // 3) % len(DEPTHS)]
        out.append((d[:4096], k))
    # undecoded contexts nest without regard to the depth limit (a call inside a call inside a call ...): the only
    # inputs longer than 4 KiB; the nesting of the result tree is the nesting of the text
    # numbers with thousands of digits wherever a number is parsed (CPython refuses to convert more than 4300 digits)
    for z in (b"0" * 4400, b"9" * 4400, b"0" * 5000 + b"65"):
        out += [(b"&#65;&#66;&#" + z + b";&#67;&#68;&#69;&#70;", 10), (b"&#x41;&#x42;&#x" + z + b";&#x43;&#x44;&#x45;", 10), (b"chrw(" + z + b")", 10),
                (b"FromBase64String('ZHVjaw==') -bxor " + z, 10), (b"1,2," * 170 + z + b",3 -bxor 7", 10), (b"http://" + z + b"/", 10),
                (b"http://example.com:" + z + b"/", 10), (b"%" + z, 10)]
    for opener in (b"createobject(", b"CreateObject('", b"cmd /c (", b"unescape('", b"("):
        for n in (300, 1200):
            out.append((opener * n + b")" * n, 10))
    return out


KW_TAILS = (b"GetProcAddress", b"VirtualAlloc", b"Invoke-Expression", b"kernel32.dll", b" smtp")


class _Timeout(Exception):
    pass


def _alarm(*_a):
    raise _Timeout()


def session(md, data: bytes, k: int, hang_s: int) -> list[str]:
    """One library session; returns the event names (see Session.tla)."""
    from multidecoder.json_conversion import json_to_tree, tree_to_json
    from multidecoder.query import string_summary

    ev = ["call"]
    old = signal.signal(signal.SIGALRM, _alarm)
    signal.alarm(hang_s)
    stage = "scan"
    try:
        tree = md.scan(data, k)
        ev.append("return")
        for stage in VIEWS:
            if stage == "flatten":
                tree.flatten()
            elif stage == "iterate":
                n = 0
                for _ in tree:
                    n += 1
            elif stage == "summary":
                string_summary(tree)
            elif stage == "json":
                js = tree_to_json(tree)
                json.loads(js)
            else:
                json_to_tree(js)
            ev.append(stage)
    except _Timeout:
        ev.append(f"timeout:{stage}")
    except BaseException as e:  # noqa: BLE001
        ev.append(f"raise:{stage}:{type(e).__name__}")
    finally:
        signal.alarm(0)
        signal.signal(signal.SIGALRM, old)
    return ev


def _worker(conn, chunk, hang_s):
    use_repo()
    warnings.simplefilter("ignore")
    from multidecoder.multidecoder import Multidecoder
    from multidecoder.registry import get_analyzers

    full = Multidecoder()
    light = Multidecoder(get_analyzers())
    import gc

    for i, (d, k) in chunk:
        conn.send(("start", i))
        md = full if (i % 5 == 0 or d.endswith(KW_TAILS)) else light
        if md is full:
            # a new buffer per session, released afterwards, followed by a shorter one on (probably) the same address:
            # what a long-running service does all day; anything keyed on id() or left over from the previous scan shows
            ev = history_pair(md, d, k, hang_s)
        else:
            fresh = bytes(bytearray(d))
            ev = session(md, fresh, k, hang_s)
            del fresh
        if i % 50 == 0:
            gc.collect()
        conn.send(("done", i, ev))
    conn.send(("end",))
    conn.close()


MAX_TIMEOUTS = 40


def run_sessions(indexed: list, hang_s: int) -> list:
    """Sessions in worker processes under a watchdog: the in-process alarm cannot interrupt a call that is stuck inside
    C code (a regular expression that backtracks for ever), so a worker that stays on one input for longer than
    hang_s + 10 s is killed, that session is recorded as a timeout, and a new worker takes over the rest."""
    from multiprocessing.connection import wait

    ctx = mp.get_context("fork")
    results = {}
    queues = [indexed[i::NCPU] for i in range(NCPU)]
    live = {}

    def spawn(items):
        if not items:
            return
        parent, child = ctx.Pipe(duplex=False)
        pr = ctx.Process(target=_worker, args=(child, items, hang_s), daemon=True)
        pr.start()
        child.close()
        live[parent] = {"proc": pr, "items": items, "cur": None, "since": time.time()}

    for q in queues:
        spawn(q)
    while live:
        ready = wait(list(live), timeout=2.0)
        now = time.time()
        for conn in ready:
            st = live[conn]
            try:
                msg = conn.recv()
            except EOFError:
                msg = ("end",)
            if msg[0] == "start":
                st["cur"], st["since"] = msg[1], now
            elif msg[0] == "done":
                results[msg[1]] = msg[2]
                st["cur"], st["since"] = None, now
            else:
                st["proc"].join(timeout=5)
                del live[conn]
        for conn, st in list(live.items()):
            if st["cur"] is not None and now - st["since"] > hang_s + 10:
                st["proc"].kill()
                st["proc"].join()
                results[st["cur"]] = ["call", "timeout:killed"]
                rest = [it for it in st["items"] if it[0] not in results]
                del live[conn]
                spawn(rest)
        # enough is enough: a tree in which dozens of inputs hang is reported with what was seen so far, not after hours
        if sum(1 for ev in results.values() if ev[-1].startswith("timeout")) >= MAX_TIMEOUTS:
            for conn, st in list(live.items()):
                st["proc"].kill()
                st["proc"].join()
                del live[conn]
            break
    return sorted(results.items())


def history_pair(md, d: bytes, k: int, hang_s: int) -> list[str]:
    """A session on a fresh copy of d, then - on the address just released, if the allocator cooperates - a session
    on a slightly shorter buffer of the same allocation size class.  Returns the events of the first session, with the
    failure of the second one appended in place of its last event."""
    import gc

    fresh = bytes(bytearray(d))
    addr = id(fresh)
    ev = session(md, fresh, k, hang_s)
    n = len(fresh)
    del fresh
    r = (33 + n) % 16 or 16           # CPython: a bytes object of n bytes takes 33 + n bytes, rounded up to 16
    if ev[-1] == VIEWS[-1] and r >= 2:
        gc.collect()
        # ask the allocator for buffers of that size class until it hands out the address just released (kept alive
        # meanwhile so that it has to move on); fall back to the first one
        held = []
        echo = None
        for _ in range(200):
            cand = bytes(bytearray(b"y" * (n - (r - 1))))
            if id(cand) == addr:
                echo = cand
                break
            held.append(cand)
        if echo is None:
            echo = held[0]
        del held
        ev2 = session(md, echo, 10, hang_s)
        del echo
        if ev2[-1] != VIEWS[-1]:
            ev = ev[:-1] + [ev2[-1].replace(":", ":after-previous-scan-", 1)]
    return ev


def first_failure(md, d: bytes, k: int) -> list[str]:
    for _ in range(12):
        ev = history_pair(md, d, k, 30)
        if ev[-1] != VIEWS[-1]:
            return ev
    return ev


def confirm_hang(data: bytes, k: int, history: bool = False) -> bool:
    """Re-run one session alone in a fresh process with the full 60 s allowance (for a failure that needs the previous
    scan, the pair is repeated a few times: whether the allocator re-uses the address is a matter of chance)."""
    call = "p.first_failure(md, d, %d)" % k if history else "p.session(md, d, %d, 60)" % k
    code = ("import sys; sys.path.insert(0, %r); from harness import props_total as p; from harness.common import use_repo; use_repo();"
            "from multidecoder.multidecoder import Multidecoder; md = Multidecoder(); d = bytes.fromhex(%r); print(%s)") % (VERIF, data.hex(), call)
    try:
        pr = subprocess.run([PY, "-c", code], capture_output=True, timeout=900 if history else 90)
        return b"timeout:" in pr.stdout
    except subprocess.TimeoutExpired:
        return True


def run(prop: str, tier: str) -> int:
    use_repo()
    res = Result(prop, tier, "model_checking")
    res.assumptions += ["inputs are at most 4 KiB (except ten deep-nesting inputs of up to 17 KB); a session counts as hung when it does not finish within 20 s and, re-run alone in a fresh process, not within 60 s",
                        "decoding layers deep enough to exhaust Python's recursion limit are not reachable (the depth limit bounds them); nesting of "
                        "undecoded contexts is explored up to 1200 levels (known finding K09)",
                        "4 of 5 sessions use the analyser-only registry (no keyword lists), 1 of 5 the full default registry"]
    engine.model_check(res, ["q"] if tier == "quick" else ["q", "t4", "t2"])
    engine.oob_demo(res)
    res.coverage["properties_checked_by_tlc"] = ["TerminatesDone (liveness, weak fairness)", "NoHang", "Session.tla: no raise / timeout action"]
    rng = drivers.rng_for("total")
    work = inputs_for(tier, rng)
    indexed = list(enumerate(work))
    t0 = time.time()
    results = run_sessions(indexed, HANG_S)
    res.coverage["session_wall_s"] = round(time.time() - t0, 1)
    if len(results) < len(indexed):
        res.coverage["sessions_not_run"] = len(indexed) - len(results)
        res.notes.append(f"stopped after {MAX_TIMEOUTS} sessions that did not return: {len(indexed) - len(results)} sessions not run")
    path = os.path.join(scratch("sess"), "sessions.ndjson")
    with open(path, "w") as f:
        for i, ev in results:
            f.write(json.dumps({"events": ev}) + "\n")
    n = len(results)
    v, r = tlc.run_trace("Session", "SPECIFICATION Spec\nCHECK_DEADLOCK FALSE\n", path, n, max_lines=200000, max_bytes=40_000_000)
    res.add("trace_states", r.distinct)
    rejected = [(t, cl) for t, cl in v.items() if "REJECT" in cl]
    timeouts = [t for t, cl in rejected if any(c.startswith("timeout") for c in cl)]
    from concurrent.futures import ThreadPoolExecutor

    with ThreadPoolExecutor(NCPU) as ex:      # each suspected hang is re-run alone, in its own process, with 60 s
        confirmed = dict(zip(timeouts, ex.map(
            lambda t: confirm_hang(*work[results[t - 1][0]], history=any("after-previous-scan" in c for c in v[t])), timeouts)))
    for t, cl in rejected:
        i, ev = results[t - 1]
        data, k = work[i]
        bad = [c for c in cl if c != "REJECT"][0]
        if bad.startswith("timeout") and not confirmed.get(t, True):
            res.notes.append(f"slow but terminating (between {HANG_S} and 60 s): input #{i}")
            continue
        kind, stage = bad.split(":")[0], bad.split(":")[1] if ":" in bad else "?"
        res.violation(f"session is not a behaviour of Session.tla: event {bad!r} after {ev[:-1]} for input {data[:200]!r} (k={k})",
                      {"clause": kind, "stage": stage, "exception": bad.split(":")[-1],
                       "nested_createobject_calls_over_900": data.lower().count(b"createobject(") > 900},
                      {"kind": "session", "input_hex": data.hex(), "k": k, "events": ev})
    res.coverage["traces_validated_against_impl"] = n
    res.coverage["evaluations"] = n
    res.coverage["distinct_nontrivial"] = len({d for d, _k in work})
    res.coverage["rule"] = ("one session (scan + five views) per input; inputs: all strings over each conversion site's critical alphabet behind its trigger "
                            "prefixes, xor-key / code-point / PE-header / byte-array grids, repository literals under mutation, token soup, binary garbage; "
                            "depth limits in {-5, 0, 1, 2, 10, 10**6}; distinct = distinct input byte strings")
    res.sample({"input": work[7][0].decode("latin-1"), "k": work[7][1]})
    res.sample({"input": work[len(work) // 2][0].decode("latin-1")[:200], "k": work[len(work) // 2][1]})
    return res.finish()
