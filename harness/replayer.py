"""./check <ID> --replay <file>: show what the tree under test does today for the case of a replay file.

For engine-level replays (kind scan-trace) the case is re-recorded and re-judged by ScanTrace.tla, so the exit status
says whether the violation still reproduces (1) or not (0).  For the other kinds the recorded event is printed next
to the current behaviour of the scanner on the same input (exit 0; the property's own check is the judge)."""
from __future__ import annotations

import json
import os

from .common import scratch, use_repo


def replay(prop: str, doc: dict) -> int:
    use_repo()
    rp = doc.get("replay", {})
    print(f"property {doc.get('property')}: {doc.get('what')}")
    print(f"facts: {doc.get('facts')}")
    hx = rp.get("input_hex")
    if not hx:
        print("(no input recorded in this replay file)")
        return 0
    data = bytes.fromhex(hx)
    k = rp.get("k", 10)
    if rp.get("kind") == "scan-trace":
        from . import engine
        from .record import Recorder

        rec = Recorder()
        tr = rec.scan(data, k, lo=True, subs=True)
        path = os.path.join(scratch("replay"), "one.ndjson")
        with open(path, "w") as f:
            f.write(json.dumps(tr) + "\n")
        v, _r = engine.validate(path, 1, workers=1)
        print(f"input {data!r} k={k}: ScanTrace verdict today: {v[1]}")
        return 1 if "REJECT" in v[1] else 0
    from multidecoder.multidecoder import Multidecoder
    from multidecoder.query import string_summary

    try:
        tree = Multidecoder().scan(data, k)
        print(f"input {data[:300]!r} k={k}; the scan returns today:")
        for line in string_summary(tree)[:60]:
            print("   ", line)
        print("flatten:", tree.flatten()[:300])
    except Exception as e:  # noqa: BLE001
        print(f"scan raises {type(e).__name__}: {e}")
        return 1
    return 0
