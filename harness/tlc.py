"""Running TLC and reading what it says."""
from __future__ import annotations

import hashlib
import json
import os
import re
import shutil
import subprocess
import time

from .common import NCPU, SPEC, VERIF, MachineryError, scratch

JAR_CP = "/opt/veriftools/tla/tla2tools.jar:/opt/veriftools/tla/CommunityModules-deps.jar"
CACHE = os.path.join(VERIF, ".cache")

_GEN = re.compile(r"(\d[\d,]*) states generated, (\d[\d,]*) distinct states found, (\d[\d,]*) states left")
_V = re.compile(r'^<<"V", (\d+), "([^"]*)">>$', re.M)
_INV = re.compile(r"Error: Invariant (\S+) is violated")
_PROP = re.compile(r"Error: Temporal properties were violated|Error: Action property (\S+) is violated")


class TLCResult:
    def __init__(self, out: str, rc: int, wall: float):
        self.out = out
        self.rc = rc
        self.wall = wall
        m = None
        for m in _GEN.finditer(out):
            pass
        self.generated = int(m.group(1).replace(",", "")) if m else 0
        self.distinct = int(m.group(2).replace(",", "")) if m else 0
        self.queue = int(m.group(3).replace(",", "")) if m else -1
        self.violated = sorted(set(_INV.findall(out)))
        self.temporal = bool(_PROP.search(out))
        self.completed = "Model checking completed. No error has been found." in out
        self.finished = self.completed or ("Finished in" in out)
        self.errors = [
            ln
            for ln in out.splitlines()
            if ln.startswith("Error:") and "Invariant" not in ln and "Temporal properties" not in ln
        ]

    def diagnosis(self) -> str:
        """The first error block of the output (lines shortened), plus the tail."""
        lines = self.out.splitlines()
        for i, ln in enumerate(lines):
            if ln.startswith("Error:") or "exception" in ln.lower():
                blk = [x[:300] for x in lines[i : i + 14]]
                return "\n".join(blk + ["..."] + [x[:300] for x in lines[-6:]])
        return "\n".join(x[:300] for x in lines[-25:])

    def verdicts(self) -> dict[int, list[str]]:
        d: dict[int, list[str]] = {}
        for m in _V.finditer(self.out):
            d.setdefault(int(m.group(1)), []).append(m.group(2))
        return d

    def summary(self) -> dict:
        return {
            "states_generated": self.generated,
            "distinct_states": self.distinct,
            "wall_s": round(self.wall, 1),
            "violated": self.violated,
            "completed": self.completed,
        }


def _closure(module: str, seen: set[str]) -> None:
    path = os.path.join(SPEC, module + ".tla")
    if module in seen or not os.path.exists(path):
        return
    seen.add(module)
    with open(path) as f:
        text = f.read()
    for m in re.finditer(r"^\s*(?:EXTENDS|INSTANCE)\s+([^\n]*)", text, re.M):
        for name in re.split(r"[,\s]+", m.group(1)):
            if name and name != "WITH":
                _closure(name, seen)


def _spec_digest(module: str, cfg_text: str, args: list[str]) -> str:
    """Hash of the module, every module of /verif/spec it (transitively) extends, the configuration and the arguments."""
    mods: set[str] = set()
    _closure(module, mods)
    h = hashlib.sha256()
    for name in sorted(mods):
        with open(os.path.join(SPEC, name + ".tla"), "rb") as f:
            h.update(name.encode() + b"\0" + f.read() + b"\0")
    h.update(module.encode() + b"\0" + cfg_text.encode() + b"\0" + " ".join(args).encode())
    return h.hexdigest()[:32]


def run(
    module: str,
    cfg: str,
    *,
    env: dict | None = None,
    workers: int | str = "auto",
    timeout: int = 3600,
    extra: list[str] | None = None,
    cache: bool = False,
    heap: str = "8g",
    dfs_queue: bool = False,
) -> TLCResult:
    """Run TLC on spec/<module>.tla with the given configuration (a file name in spec/ or cfg text).

    cache=True is only ever used for runs that do not read anything from the implementation
    (exhaustive model checking of the specification itself); the key covers every .tla file."""
    if "\n" in cfg:
        cfg_text = cfg
    else:
        with open(os.path.join(SPEC, cfg)) as f:
            cfg_text = f.read()
    w = str(NCPU if workers == "auto" else workers)
    args = ["-workers", w, "-noGenerateSpecTE"] + (extra or [])
    key = None
    if cache:
        key = _spec_digest(module, cfg_text, args)
        p = os.path.join(CACHE, key + ".json")
        if os.path.exists(p):
            with open(p) as f:
                d = json.load(f)
            r = TLCResult(d["out"], d["rc"], d["wall"])
            r.cached = True
            return r
    work = scratch("tlc")
    cfg_path = os.path.join(work, module + ".cfg")
    with open(cfg_path, "w") as f:
        f.write(cfg_text)
    jopts = ["-XX:+UseParallelGC", f"-Xmx{heap}", "-Xss512m"]
    if dfs_queue:
        jopts.append("-Dtlc2.tool.queue.IStateQueue=StateDeque")
    cmd = ["java", *jopts, "-cp", JAR_CP, "tlc2.TLC", *args, "-metadir", os.path.join(work, "meta"),
           "-config", cfg_path, os.path.join(SPEC, module + ".tla")]
    e = dict(os.environ)
    e.update(env or {})
    t0 = time.time()
    try:
        p = subprocess.run(cmd, cwd=SPEC, env=e, capture_output=True, text=True, timeout=timeout)
        out, rc = p.stdout + p.stderr, p.returncode
    except subprocess.TimeoutExpired as ex:
        out = (ex.stdout or b"").decode(errors="replace") if isinstance(ex.stdout, bytes) else (ex.stdout or "")
        out += "\nTLC-TIMEOUT\n"
        rc = -9
    wall = time.time() - t0
    shutil.rmtree(work, ignore_errors=True)
    r = TLCResult(out, rc, wall)
    r.cached = False
    if cache and r.finished and rc in (0, 12, 13):
        os.makedirs(CACHE, exist_ok=True)
        with open(os.path.join(CACHE, key + ".json"), "w") as f:
            json.dump({"out": out[-2_000_000:], "rc": rc, "wall": wall}, f)
    return r


def run_trace(module: str, cfg: str, path: str, n: int, *, env: dict | None = None, max_lines: int = 6000, max_bytes: int = 60_000_000,
              workers: int | str = "auto", timeout: int = 3000, heap: str = "12g") -> tuple[dict[int, list[str]], TLCResult]:
    """Judge an ndjson trace file (one line = one trace, verdict lines <<"V", tid, clause>>) in chunks: TLC holds every line of
    a trace file as values in memory, and beyond a few hundred MB of JSON the collector takes over.  Verdicts are re-numbered
    to line numbers of the whole file; every line has to be judged (ACCEPT or REJECT) or the run is a machinery failure."""
    from .common import MachineryError

    chunks: list[tuple[str, int]] = []
    out, cnt, size, k, cpath = None, 0, 0, 0, ""
    with open(path) as f:
        for line in f:
            if out is None or cnt >= max_lines or size + len(line) > max_bytes:
                if out is not None:
                    out.close()
                    chunks.append((cpath, cnt))
                k += 1
                cpath = f"{path}.{k}"
                out, cnt, size = open(cpath, "w"), 0, 0
            out.write(line)
            cnt += 1
            size += len(line)
    if out is not None:
        out.close()
        chunks.append((cpath, cnt))
    verdicts: dict[int, list[str]] = {}
    base, distinct, wall, last = 0, 0, 0.0, None
    for cpath, cnt in chunks:
        r = run(module, cfg, env=dict(env or {}, TRACE_FILE=cpath), workers=workers, timeout=timeout, heap=heap)
        v = r.verdicts()
        judged = [t for t, cl in v.items() if "ACCEPT" in cl or "REJECT" in cl]
        if not r.completed or len(judged) != cnt:
            raise MachineryError(f"{module}: {len(judged)}/{cnt} judged in chunk {os.path.basename(cpath)}, rc={r.rc}\n" + r.diagnosis())
        for t, cl in v.items():
            verdicts[base + t] = cl
        base += cnt
        distinct += r.distinct
        wall += r.wall
        last = r
        os.remove(cpath)
    if base != n or last is None:
        raise MachineryError(f"{module}: {base} lines judged, {n} written")
    last.distinct = distinct
    last.wall = wall
    return verdicts, last


def must_pass(r: TLCResult, what: str) -> None:
    """A specification-level run that is supposed to find no error."""
    if not r.completed:
        tail = "\n".join(r.out.splitlines()[-40:])
        raise MachineryError(f"TLC did not complete cleanly for {what} (rc={r.rc}):\n{tail}")


def must_violate(r: TLCResult, names: list[str], what: str) -> None:
    """A non-vacuity run: the defective variant of the machine has to break the named invariants."""
    missing = [n for n in names if n not in r.violated]
    if missing:
        tail = r.diagnosis()
        raise MachineryError(f"non-vacuity run {what}: expected violation of {missing}, got {r.violated}\n{tail}")
