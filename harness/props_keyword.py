"""C17: keyword search.  Keyword.tla / KeywordMC.tla model-checked; KeywordTrace.tla on real searchers."""
from __future__ import annotations

import json
import os

from . import drivers, tlc
from .common import MachineryError, Result, scratch, use_repo

MC = {
    "q": dict(Alphabet="{97, 65, 98, 66, 49, 45}", MaxKw=3, MaxData=4),
    "t": dict(Alphabet="{97, 65, 98, 66, 49, 45}", MaxKw=3, MaxData=5),
    "t2": dict(Alphabet="{97, 65, 32}", MaxKw=4, MaxData=7),
}
INVS = ["Refines", "LabelAgrees", "Sound"]


def cfg(name: str, gen: bool = False) -> str:
    lines = ["CONSTANTS"] + [f" {k} = {v}" for k, v in MC[name].items()]
    if gen:
        lines += ["INIT Init", "NEXT Next"]
    else:
        lines += ["SPECIFICATION Spec"] + [f"INVARIANT {i}" for i in INVS] + ["PROPERTY Terminates"]
    return "\n".join(lines + ["CHECK_DEADLOCK FALSE"]) + "\n"


def b2l(b: bytes) -> list[int]:
    return list(b)


def call(searcher, data: bytes, kws: list[bytes], label: str) -> dict:
    """One call of a keyword searcher.  Label and keywords come from the file the searcher was built from (read by the
    harness), never from the searcher object: what it holds internally is the implementation's business."""
    rec = {"label": b2l(label.encode()), "kws": [b2l(k) for k in kws], "data": b2l(data), "hits": [], "failed": []}
    try:
        for h in searcher(data):
            rec["hits"].append({"ty": b2l(h.type.encode()), "val": b2l(h.value), "obf": b2l(h.obfuscation.encode()),
                                "s": h.start, "e": h.end, "kids": len(h.children)})
    except Exception as e:  # noqa: BLE001
        rec["failed"].append(type(e).__name__)
    return rec


def run(prop: str, tier: str) -> int:
    use_repo()
    from multidecoder.multidecoder import Multidecoder
    from multidecoder.registry import get_keywords

    res = Result(prop, tier, "model_checking")
    res.assumptions += ["bounded alphabet / lengths as recorded under coverage.stages",
                        "for shipped keyword lists only keywords that occur (case-insensitively, Python `in`) in the text are re-derived by TLC; "
                        "a hit for any other keyword is rejected"]
    for name in (["q"] if tier == "quick" else ["q", "t", "t2"]):
        r = tlc.run("KeywordMC", cfg(name), cache=True, timeout=3000, heap="12g")
        tlc.must_pass(r, f"KeywordMC[{name}]")
        res.add("states", r.distinct)
        res.add("transitions", r.generated)
        res.stage(f"KeywordMC[{name}]", dict(r.summary(), constants=MC[name], cached=r.cached, invariants=INVS))

    work = scratch("kw")
    path = os.path.join(work, "kw.ndjson")
    n = pairs = nontrivial = 0
    with open(path, "w") as f:
        # direction A: the whole universe of KeywordMC through a registry built from a generated directory
        fam = "q" if tier == "quick" else "t"
        out = os.path.join(work, "uni.json")
        r = tlc.run("KeywordGen", cfg(fam, gen=True), env={"OUT_FILE": out}, workers=1, timeout=1200)
        if not os.path.exists(out):
            raise MachineryError("KeywordGen produced nothing:\n" + r.out[-1500:])
        with open(out) as g:
            uni = json.load(g)
        kdir = os.path.join(work, "kwdir")
        os.makedirs(kdir)
        with open(os.path.join(kdir, "uni.words"), "wb") as g:
            g.write(b"\n".join(bytes(k) for k in uni["kws"]) + b"\n")
        searchers = get_keywords(kdir)
        if len(searchers) != 1:
            raise MachineryError("generated keyword directory was not loaded as one searcher")
        ukws = [bytes(k) for k in uni["kws"]]
        for d in uni["data"]:
            rec = call(searchers[0], bytes(d), ukws, "uni.words")
            rec["origin"] = "universe"
            f.write(json.dumps(rec) + "\n")
            n += 1
            pairs += len(uni["kws"])
            nontrivial += 1 if rec["hits"] else 0
        res.sample({"universe": fam, "keywords": len(uni["kws"]), "data": len(uni["data"])})
        # beyond the bound: punctuation, spaces, digits-only keywords, prefixes of one another, longer data
        rng = drivers.rng_for("kw")
        alpha = b"aAbBzZ09 -_.$#;\xe9\xc9\n"
        for i in range(300 if tier == "quick" else 5000):
            kws = sorted({bytes(rng.choice(alpha) for _ in range(rng.randint(1, 4))) for _ in range(rng.randint(1, 6))} - {b"\n", b""})
            kws = [k for k in kws if b"\n" not in k]       # (a line of blanks only is a keyword like any other)
            if i % 9 == 0:
                kws = sorted(set(kws) | {rng.choice([b" ", b"  ", b"\t", b" \t", b"\x0b", b"\x0c "])})
            if not kws:
                continue
            sub = os.path.join(work, f"r{i}")
            os.makedirs(sub)
            with open(os.path.join(sub, "rnd.list"), "wb") as g:
                g.write(b"\n".join(kws) + b"\n")
            s = get_keywords(sub)
            if len(s) != 1:
                continue
            base = bytes(rng.choice(alpha) for _ in range(rng.randint(0, 12)))
            k = rng.choice(kws)
            data = base + rng.choice([k, k.upper(), k.lower(), k.swapcase()]) + rng.choice([b"", b" ", b"x", k])
            if i % 4 == 0:      # the same keyword several times in different spellings (the label is decided per occurrence)
                data = k + b" " + k.swapcase() + b";" + k + b" " + k.title() + b" " + base
            rec = call(s[0], data, kws, "rnd.list")
            rec["origin"] = "random"
            f.write(json.dumps(rec) + "\n")
            n += 1
            pairs += len(kws)
            nontrivial += 1 if rec["hits"] else 0
        # direction B: the shipped keyword lists on texts met while scanning
        md = Multidecoder()
        import multidecoder

        listed: dict[str, list[bytes]] = {}        # shipped keyword lists as they are on disk
        for sub, _dirs, files in os.walk(os.path.join(os.path.dirname(multidecoder.__file__), "keywords")):
            for fn in files:
                with open(os.path.join(sub, fn), "rb") as g:
                    listed[fn] = [k for k in g.read().splitlines() if k]
        shipped = [s for s in md.decoders if hasattr(s, "args") and s.args and s.args[0] in listed]
        inputs = list(drivers.repo_literals()) + list(drivers.token_soup(rng, 200 if tier == "quick" else 3000))
        texts: list[bytes] = []
        seen = set()
        for data in inputs:
            for v in [data] + [nd.value for nd in md.scan(data)]:
                if v not in seen and len(v) <= 4096:
                    seen.add(v)
                    texts.append(v)
        for t in texts:
            low = t.lower()
            for s in shipped:
                cands = sorted({k for k in listed[s.args[0]] if k.lower() in low})
                if not cands and not s(t):
                    continue
                rec = call(s, t, cands, s.args[0])
                rec["origin"] = "shipped"
                f.write(json.dumps(rec) + "\n")
                n += 1
                pairs += len(cands)
                nontrivial += 1 if rec["hits"] else 0
        res.sample({"shipped_searchers": len(shipped), "texts": len(texts)})
    v, r = tlc.run_trace("KeywordTrace", "SPECIFICATION Spec\nCHECK_DEADLOCK FALSE\n", path, n, max_lines=60000, max_bytes=40_000_000)
    res.add("trace_states", r.distinct)
    with open(path) as f:
        lines = f.read().splitlines()
    for t, cl in v.items():
        for c in cl:
            if c in ("occurrences", "label", "raised"):
                tr = json.loads(lines[t - 1])
                res.violation(
                    f"KeywordTrace rejects clause {c}: label={bytes(tr['label'])!r} data={bytes(tr['data'])!r} "
                    f"keywords={[bytes(k) for k in tr['kws']][:8]!r} reported={[(bytes(h['val']), h['s'], h['e'], bytes(h['obf'])) for h in tr['hits']][:8]!r}",
                    {"clause": c, "origin": tr["origin"]},
                    {"kind": "keyword-trace", "trace": tr})
    res.coverage["traces_validated_against_impl"] = n
    res.coverage["evaluations"] = pairs
    res.coverage["distinct_nontrivial"] = nontrivial
    res.coverage["rule"] = ("one trace per searcher call; evaluations = (keyword, data) pairs re-derived by TLC; "
                            "non-trivial = the call reported at least one hit")
    return res.finish()
