"""Checks C03..C08: decided by Scan.tla (TLC, exhaustive) and by ScanTrace.tla on recorded executions."""
from __future__ import annotations

import json
import os

from . import drivers, engine
from .common import Result, scratch

# which ScanTrace clauses speak for which property
CLAUSES = {
    "C03": {"wf.root", "wf.link", "wf.span", "wf.iter"},
    "C04": {"abs"},
    "C05": {"lam", "dbl"},
    "C06": {"tree", "ref", "searched"},
    "C07": {"depth", "prefix", "searched", "ret"},       # ret: the scan raised or hung where the machine terminates
    "C08": {"sub"},
}
INV_OF = {
    "C03": ["WellFormed"],
    "C04": ["AbsPos", "ChainIsContext"],
    "C05": ["Laminar", "NoDoubleReport"],
    "C06": ["Conforms", "NoLoss"],
    "C07": ["DepthBound", "PrefixDone", "TerminatesDone"],
    "C08": ["SubScan"],
}
ASIS_BREAKS = {"C05": ["Laminar", "NoDoubleReport"], "C06": ["Conforms"]}


def diagnose(tr: dict, clause: str) -> dict:
    """Describe *where* a rejected trace fails (for the replay file and for matching known findings).
    The decision itself was taken by TLC; this only names the site."""
    facts = {"clause": clause}
    O = tr["tree"]
    texts = tr["texts"]

    def producer(i: int) -> str:
        while i >= 1 and O[i - 1]["by"] != "engine":
            i = O[i - 1]["p"]
        if i < 1:
            return "?"
        t, ix = O[i - 1]["src"]
        return tr["hits"][t - 1][ix - 1].get("dec", "?")

    if clause == "wf.span":
        for i, n in enumerate(O[1:], 2):
            plen = len(texts[O[n["p"] - 1]["val"] - 1])
            rule = None
            if n["s"] < 0:
                rule = "start<0"
            elif n["s"] > n["e"]:
                rule = "start>end"
            elif n["e"] > plen:
                rule = "end>len(parent.value)"
            if rule:
                facts.update(rule=rule, node_type=n["ty"], parent_type=O[n["p"] - 1]["ty"], by=n["by"],
                             producer=producer(i))
                break
    elif clause in ("abs", "lam", "dbl", "sub", "depth"):
        facts["registry"] = tr.get("registry", "?")
    if clause == "pre":
        for t, hs in enumerate(tr["hits"], 1):
            for h in hs:
                if len(texts[h["val"] - 1]) and not (0 <= h["s"] < h["e"] <= len(texts[t - 1])):
                    facts.update(producer=h.get("dec", "?"), node_type=h["ty"],
                                 rule="end<start" if h["e"] < h["s"] else ("zero-width" if h["e"] == h["s"] else "out-of-bounds"))
                    return facts
    return facts


def _early_stateful():
    """C08: decoded values whose search involves key guessing are scanned in the first second of the process; their
    independent re-scans are made at the end (see _record_shipped), when the process is past any start-up deadline."""
    from .record import Recorder

    rec = Recorder()
    trs = []
    for i, data in enumerate(drivers.xor_state_inputs()):
        tr = rec.scan(data, 2 + i % 3, subs=True, defer_subs=True)
        tr["origin"] = "shipped"
        tr["registry"] = "default; scanned at start-up, independent re-scans made late"
        trs.append(tr)
    return rec, trs


def _record_shipped(path: str, tier: str, prop: str, res: Result, early=None) -> int:
    """Direction B: scans with the shipped decoders."""
    from .record import Recorder

    rng = drivers.rng_for("engine:" + prop)
    n_soup, n_mut, n_nest = (700, 500, 150) if tier == "quick" else (12000, 8000, 1500)
    lits = drivers.repo_literals()
    inputs = list(lits)
    inputs += list(drivers.token_soup(rng, n_soup))
    for _ in range(n_mut):
        d = rng.choice(lits)
        for _m in range(rng.randint(1, 3)):
            d = drivers.mutate(rng, d)
        inputs.append(d[:4096])
    inputs += list(drivers.nested(rng, n_nest))
    inputs += drivers.KNOWN_TRIGGERS
    kw_inputs = set(drivers.keyword_orders(rng, 60 if tier == "quick" else 1200))
    inputs += sorted(kw_inputs)
    stateful = drivers.xor_state_inputs()
    inputs += stateful
    inputs += drivers.CONTEXT_ONLY + drivers.twice()
    parts = drivers.parts_with_payload()
    inputs += parts + parts + parts            # each at three small depth limits (below)
    from .props_net import url_lattice, win_lattice      # decoders that pre-assemble children: spans inside a rewritten value

    wl, ul = win_lattice(rng, tier), url_lattice(rng, tier)
    inputs += [b"run " + wl[i] + b" now" for i in range(0, len(wl), max(1, len(wl) // (60 if tier == "quick" else 600)))]
    inputs += [b"get " + ul[i] + b" now" for i in range(0, len(ul), max(1, len(ul) // (40 if tier == "quick" else 400)))]
    if prop == "C08":
        inputs += drivers.deep_paren_sweep()
    from .props_net import mini_pe

    # an embedded PE far behind the start of the text (offset larger than its own size), a cmd line with doubly escaped carets
    inputs += [bytes(2500) + mini_pe(1, 0, rng), b"x" * 4000 + mini_pe(2, 0, rng) + b" tail",
               b"cmd /c e^^cho h^^ttp://evil-site.net/a.exe ^^^& calc", b"run: c^md /c p^^ing 10.1.2.3 ^^^| find x"]
    from .props_total import pe_grid      # truncated / malformed / embedded PE headers (spans that tempt a decoder past the end of its text)

    grid = pe_grid(rng, tier)
    inputs += grid[:: max(1, len(grid) // (60 if tier == "quick" else 600))]
    full = Recorder()
    from multidecoder.registry import get_analyzers

    light = Recorder(get_analyzers())
    ks = [-1, 0, 1, 2, 3, 9, 10, 11]
    n = 0
    deferred: list[dict] = []
    seen_parts: dict[bytes, int] = {}
    with open(path, "w") as f:
        for i, data in enumerate(inputs):
            rec = full if (i % 4 == 0 or data in kw_inputs) else light
            k = 10 if (rng.random() < 0.5 or data in drivers.KNOWN_TRIGGERS or i < len(lits)) else rng.choice(ks)
            if data in stateful:
                k = 2 + stateful.index(data) % 3
            if data in parts:
                seen_parts[data] = seen_parts.get(data, 0) + 1
                k = 1 + seen_parts[data] + parts.index(data) % 2          # 2..5
            late = False
            tr = rec.scan(data, k, lo=(prop == "C07"), subs=(prop == "C08"), lo_first=(i % 2 == 1 or data in stateful), defer_subs=late, prepared=(i % 5 == 4))
            tr["origin"] = "shipped"
            tr["registry"] = "default" if rec is full else "analyzers"
            if late:
                deferred.append(tr)
                continue
            f.write(json.dumps(tr) + "\n")
            n += 1
            if (i % 3 == 0 or data in drivers.CONTEXT_ONLY) and not late:
                # the same bytes once more, as a new object, straight after: what a decoder keeps between calls must not show
                again = bytes(bytearray(data))
                tr = rec.scan(again, k, lo=(prop == "C07"), subs=(prop == "C08"))
                tr["origin"] = "shipped"
                tr["registry"] = ("default" if rec is full else "analyzers") + ", second scan of the same bytes"
                f.write(json.dumps(tr) + "\n")
                n += 1
        if early is not None:
            # the independent re-scans of these are made once the process is well past any start-up deadline / time-to-live
            import time

            from .common import T0

            time.sleep(max(0.0, 12.0 - (time.time() - T0)))
            early[0].finish_subs()
            for tr in early[1]:
                f.write(json.dumps(tr) + "\n")
                n += 1
    res.sample({"input": inputs[len(lits)].decode("latin-1"), "k": 10, "registry": "shipped decoders"})
    return n


def run(prop: str, tier: str) -> int:
    res = Result(prop, tier, "model_checking")
    res.assumptions += [
        "TLC's exhaustive exploration is bounded by the world family constants recorded under coverage.stages",
        "trace validation trusts the recording wrapper (snapshot at decoder return, identities kept) and Python's json",
        "decoders are deterministic functions of the text they are given (checked: a text searched twice must yield equal hits)",
    ]
    early = _early_stateful() if prop == "C08" else None
    # 1. the specification itself
    engine.model_check(res, ["q", "h3"] if tier == "quick" else ["q", "t3", "t4", "t2", "n4", "c4", "h3"])
    if prop in ASIS_BREAKS:
        engine.non_vacuity(res, ASIS_BREAKS[prop])
    res.coverage["properties_checked_by_tlc"] = INV_OF[prop]

    # 2. direction A: TLC's worlds through the real engine, 3. direction B: shipped decoders
    work = scratch("traces")
    jobs = []
    pa = os.path.join(work, "worlds.ndjson")
    total, nrep = engine.replay_worlds("q", 2500 if tier == "quick" else 40000, pa,
                                       lo=(prop == "C07"), subs=(prop == "C08"))
    jobs.append((pa, nrep))
    if tier == "quick":      # three hits on the input (nested contexts, two decoded hits in one context, ...)
        p3 = os.path.join(work, "worlds-t3.ndjson")
        _t, n3 = engine.replay_worlds("t3s", 1500, p3, lo=(prop == "C07"), subs=(prop == "C08"))
        jobs.append((p3, n3))
        p4 = os.path.join(work, "worlds-n4.ndjson")
        _t, n4 = engine.replay_worlds("n4", 1500, p4, lo=(prop == "C07"), subs=(prop == "C08"))
        jobs.append((p4, n4))
        p5 = os.path.join(work, "worlds-c4.ndjson")
        _t, n5 = engine.replay_worlds("c4", 1500, p5, lo=(prop == "C07"), subs=(prop == "C08"))
        jobs.append((p5, n5))
        p6 = os.path.join(work, "worlds-h3.ndjson")
        _t, n6 = engine.replay_worlds("h3", 4000, p6, lo=(prop == "C07"), subs=(prop == "C08"))
        jobs.append((p6, n6))
    if tier == "thorough":
        for fam in ("t3", "t4", "t2", "n4", "c4", "h3"):
            p2 = os.path.join(work, f"worlds-{fam}.ndjson")
            _t, n2 = engine.replay_worlds(fam, 15000, p2, lo=(prop == "C07"), subs=(prop == "C08"))
            jobs.append((p2, n2))
    pb = os.path.join(work, "shipped.ndjson")
    nb = _record_shipped(pb, tier, prop, res, early)
    jobs.append((pb, nb))
    results = engine.validate_sharded(jobs)

    mine = CLAUSES[prop]
    validated = 0
    nontrivial = 0
    for (path, n), (verdicts, r) in zip(jobs, results):
        validated += n
        res.add("trace_states", r.distinct)
        with open(path) as f:
            lines = f.read().splitlines()
        for t, cl in verdicts.items():
            tr = None
            bad = [c for c in cl if c in mine]
            if prop == "C06" and "pre" in cl:
                bad = []  # outside C06's precondition (non-empty, in-bounds hits); reported under C03
            if len(json.loads(lines[t - 1])["tree"]) > 1:
                nontrivial += 1
            for c in bad:
                tr = tr or json.loads(lines[t - 1])
                facts = diagnose(tr, c)
                facts["origin"] = tr.get("origin", "?").split("#")[0]
                res.violation(
                    f"ScanTrace rejects clause {c} for input {bytes.fromhex(tr['input'])!r} (k={tr['k']}, {tr.get('origin')})",
                    facts,
                    {"kind": "scan-trace", "input_hex": tr["input"], "k": tr["k"], "origin": tr.get("origin"),
                     "clauses": cl, "trace": tr if len(lines[t - 1]) < 200000 else "omitted (large)"},
                )
    res.coverage["traces_validated_against_impl"] = validated
    res.coverage["evaluations"] = validated
    res.coverage["distinct_nontrivial"] = nontrivial
    res.coverage["rule"] = (
        "every world of ScanMC's family (or a seeded sample) replayed through the real engine with a synthetic registry, "
        "plus scans with the shipped decoders (repository test literals, their mutations, token soup, nested encodings); "
        "non-trivial = the result tree has at least one node besides the root"
    )
    res.sample({"world_family": "q", "worlds_in_family": total, "replayed": nrep})
    return res.finish()
