"""Helpers.tla: get_closing_brace (C11) and pad_base64 (C13) - model checking + the real functions judged by TLC."""
from __future__ import annotations

import itertools
import json
import os

from . import tlc
from .common import MachineryError, Result, scratch


def run(res: Result, which: str, tier: str) -> None:
    if which == "brace":
        r = tlc.run("HelpersMC", "HelpersMC.cfg", cache=True, timeout=1200)
        tlc.must_pass(r, "HelpersMC")
        res.add("spec_states", r.distinct)
        res.stage("HelpersMC (get_closing_brace loop vs ClosingBrace, strings <= 7 over {( ) x})", dict(r.summary(), cached=r.cached))
    from multidecoder.decoders.base64 import pad_base64
    from multidecoder.decoders.vba import get_closing_brace

    events = []
    if which == "brace":
        for n in range(0, 8 if tier == "quick" else 10):
            for t in itertools.product(b"()x" if n > 5 else b"()x[{<", repeat=n):
                data = bytes(t)
                for start in sorted({0, 1, n // 2, n}):
                    if start > n:
                        continue
                    try:
                        got = get_closing_brace(data, start)
                    except Exception:  # noqa: BLE001
                        got = -99
                    events.append({"kind": "brace", "data": list(data), "start": start, "got": got})
    else:
        for n in range(0, 13):
            data = b"QUJDREVGR0hJSg"[:n] if n <= 14 else b"A" * n
            try:
                got = list(pad_base64(data))
            except Exception:  # noqa: BLE001
                got = [-1]
            events.append({"kind": "pad", "data": list(data), "got": got})
    path = os.path.join(scratch("helpers"), "ev.ndjson")
    with open(path, "w") as f:
        for ev in events:
            f.write(json.dumps(ev) + "\n")
    r = tlc.run("HelpersTrace", "SPECIFICATION Spec\nCHECK_DEADLOCK FALSE\n", env={"TRACE_FILE": path}, timeout=1200)
    v = r.verdicts()
    if not r.completed or len(v) != len(events):
        raise MachineryError(f"HelpersTrace: {len(v)}/{len(events)} judged\n" + r.diagnosis())
    for t, cl in v.items():
        for c in cl:
            if c not in ("ACCEPT", "REJECT"):
                ev = events[t - 1]
                res.violation(f"{c}: {bytes(ev['data'])!r} start={ev.get('start')} -> {ev['got']}", {"clause": c},
                              {"kind": "helper", "event": ev})
    res.add("helper_calls_judged", len(events))
