"""C13, C14, C15: data decodings.  Codec.tla / StringOps.tla / NodeRel.tla.

Direction B: every labelled node of every recorded scan is judged by TLC against the relation of its label.
Direction A: instances proposed on grids; TLC re-encodes the payload, decides whether the instance is in the
documented domain, and requires a node of the documented type / label / exact value / exact span."""
from __future__ import annotations

import base64
import json
import os
import random

from . import drivers, tlc
from .common import MachineryError, Result, scratch, use_repo

CLAUSES = {
    "C13": {"b64", "hex", "xor", "psbytes", "found:b64", "found:b64wrap", "found:atob", "found:Base64Decode", "found:FromBase64String", "found:hex",
            "found:FromHexString", "found:xor"},
    "C14": {"xml", "chr", "unescape", "utf16", "found:xmldec", "found:xmlhex", "found:xmlmix", "found:utf16multi", "found:chr", "found:unescape", "found:utf16"},
    "C15": {"concat", "reverse", "replace", "found:concat", "found:reverse", "found:replace.method", "found:replace.vba",
            "found:replace.ps", "found:replace.js"},
}
LABELS = {
    "C13": {"encoding.base64", "decoded.hexadecimal", "encoding.hexidecimal", "cipher.multibyte_xor", "<psbytes>"},
    "C14": {"unescape.xml", "function.chr", "function.unescape", "codec.uft-16"},
    "C15": {"concatenation", "reverse", "vba.reverse", "replace", "vba.replace"},
}
PRE = [b"", b" ", b"x = ", b"abc;\n", b"1234567 ", b"\x00\x01 ", b"y = CreateObject(", b"call f(",
       # an earlier call of the same family that cannot be decoded / encoded (it must not stop the later, valid one from being reported)
       b"x &amp;#65; y &amp;#x41;&amp;#66; ",          # doubly escaped references earlier in the text
       b"Dim s _\r\n  As String : s = _\n", b"a = 1 + _\r\n    2\r\n",          # VBA line continuations earlier in the text
       b"atob('YWI'); Base64Decode(\"Q\"); FromBase64String('A'); chrw(56000) & ", b"FromHexString('zz') unescape('%zz') chr(55296) "]
SUF = [b"", b" ", b";", b"\n", b" tail", b")", b") : z", b" ", b" + y", b" & var_1", b",", b".", b"-x", b", next", b". Then"]


def b2l(b: bytes) -> list[int]:
    return list(b)


def node_events(tree, labels: set[str]) -> list[dict]:
    out = []

    def walk(n):
        for c in n.children:
            lab = c.obfuscation
            if lab in labels or (lab.startswith("cipher.xor") and "cipher.multibyte_xor" in labels) or (
                    "<psbytes>" in labels and lab == "" and c.type == "powershell.bytes" and n.type != "powershell.bytes"):
                out.append({"kind": "node", "ty": c.type, "obf": lab, "obfb": b2l(lab.encode()), "cov": b2l(n.value[c.start:c.end]),
                            "val": b2l(c.value), "pval": b2l(n.value) if lab.startswith("cipher.") else [], "s": c.start, "e": c.end})
            walk(c)

    walk(tree)
    return out


def found_at(tree) -> list[dict]:
    """Nodes reachable from the root through undecoded contexts, with absolute spans."""
    out = []

    def walk(n, off):
        for c in n.children:
            out.append({"ty": c.type, "obf": c.obfuscation, "val": b2l(c.value), "s": off + c.start, "e": off + c.end})
            if c.value.lower() == n.value[c.start:c.end].lower() and c.start >= 0:
                walk(c, off + c.start)

    walk(tree, 0)
    return out


def rb(rng: random.Random, n: int, alphabet=None) -> bytes:
    return bytes(rng.choice(alphabet) if alphabet else rng.randrange(256) for _ in range(n))


TEXT = b"abcdefghijklmnopqrstuvwxyzABCDEFGHIJKLMNOPQRSTUVWXYZ0123456789 .:/-_=+%&$#@!?,;()[]{}<>|~^*"
HEXL = "0123456789abcdef"


def hexenc(p: bytes, upper: bool) -> bytes:
    h = p.hex()
    return (h.upper() if upper else h).encode()


def instances(prop: str, tier: str, rng: random.Random) -> list[dict]:
    big = tier == "thorough"
    out: list[dict] = []

    def add(enc, payload: bytes, blob: bytes, **kw):
        out.append(dict({"kind": "inst", "enc": enc, "payload": b2l(payload), "blob": b2l(blob), "opts": {"dq": False}}, **kw))

    if prop == "C13":
        # bare base64: every length 0..40 (all residues mod 3, all paddings), boundaries of the acceptance rules
        payloads = [rb(rng, n) for n in range(0, 41) for _ in range(3 if not big else 12)]
        payloads += [rb(rng, n, b"abcdef") for n in (15, 16, 17, 18, 30)]                    # few distinct characters
        payloads += [bytes([i % 3]) * n for n in (15, 16, 18, 24) for i in range(2)]          # <= 6 distinct symbols
        payloads += [base64.b64decode(s) for s in (b"deadbeefdeadbeefdeadbeef", b"0123456789abcdef01234567", b"ABCDEFGHIJKLMNOPQRSTUVWX",
                                                   b"abcdefghijklmnopqrstuvwxyz12", b"////AAAABBBBCCCCDDDDEEEEFFFFGGGG", b"///AAAAABBBBCCCCDDDDEEEEFFFFGGGG",
                                                   b"////AAAABBBBCCCCDDDDEEEE")]
        payloads += [rb(rng, rng.choice([48, 57, 64, 100, 200]), TEXT) for _ in range(10 if not big else 60)]
        # long runs of one byte before / after ordinary content (the acceptance rules speak about the whole text)
        for run in (12, 24, 48, 96):
            for fill in (0, 0x41, 0xFF):
                payloads += [bytes([fill]) * run + rb(rng, 30), rb(rng, 30) + bytes([fill]) * run]
        for p in payloads:
            add("b64", p, base64.b64encode(p))
        # exactly six distinct alphabet characters plus padding (seven distinct in all: accepted), and the same without padding (six: rejected)
        for t in (b"ABCDEFABCDEFABCDEFABEA==", b"ABCDEFABCDEFABCDEFABCDE=", b"abcdeZabcdeZabcdeZabcdeZabcdeQ==", b"ABCDEFABCDEFABCDEFABCDEF", b"0a1b2c0a1b2c0a1b2c0a1b2g=="):
            pp = base64.b64decode(t)
            if base64.b64encode(pp) == t:
                add("b64", pp, t)
        for sep in (b"\n", b"\r\n", b"\r", b"&#13;&#10;", b"&#10;", b"&#13;\n", b"&#xD;\r\n", b"<\x00  \x00", b"<\x00  \x00\r\n"):
            for width in (4, 16, 64, 76):
                for n in (17, 48, 57, 100):
                    p = rb(rng, n)
                    t = base64.b64encode(p)
                    lines = [t[i:i + width] for i in range(0, len(t), width)]
                    add("b64wrap", p, sep.join(lines), opts={"dq": False, "width": width}, sep=b2l(sep))
        for p in [rb(rng, n) for n in range(1, 30)] + [rb(rng, 40, TEXT) for _ in range(5 if not big else 40)]:
            dq = rng.random() < 0.5
            q = b'"' if dq else b"'"
            b = base64.b64encode(p)
            add("atob", p, b"atob(" + q + b + q + b")", opts={"dq": dq})
            name = rng.choice([b"Base64Decode", b"base64decode", b"BASE64DECODE"])
            add("Base64Decode", p, name + b"(" + q + b + q + b")", opts={"dq": dq}, name=b2l(name))
            name = rng.choice([b"FromBase64String", b"frombase64string"])
            prefix = rng.choice([b"", b"[System.Convert]::"])
            add("FromBase64String", p, prefix + name + b"(" + q + b + q + b")", opts={"dq": dq}, name=b2l(name), prefix=b2l(prefix))
        # hexadecimal: lengths around the 10-pair minimum, both cases, digit-only prefixes of upper-case runs
        for n in list(range(8, 24)) + [32, 64]:
            for upper in (False, True):
                for _ in range(2 if not big else 8):
                    p = rb(rng, n)
                    add("hex", p, hexenc(p, upper), opts={"dq": False, "upper": upper})
        for pd in (b"0123456789", b"12345678901234", b"0000000000", b"9" * 16):      # payloads whose hexadecimal form has no letter at all
            for upper in (False, True):
                add("hex", pd, hexenc(pd, upper), opts={"dq": False, "upper": upper})
        for nd in (4, 9, 10, 11, 12):
            p = bytes(int(rng.choice("0123456789") + rng.choice("0123456789"), 16) for _ in range(nd)) + bytes([0xAB, 0xCD, 0xEF, 0xFA]) * 3
            for upper in (False, True):
                add("hex", p, hexenc(p, upper), opts={"dq": False, "upper": upper})
        for n in (10, 11, 16, 33):
            for upper in (False, True):
                p = rb(rng, n)
                prefix = rng.choice([b"", b"[System.Convert]::"])
                name = rng.choice([b"FromHexString", b"fromhexstring"])
                add("FromHexString", p, prefix + name + b"('" + hexenc(p, upper) + b"')", opts={"dq": False, "upper": upper},
                    name=b2l(name), prefix=b2l(prefix))
    elif prop == "C14":
        allb = bytes(range(256))
        chunks = [allb[i:i + 8] for i in range(0, 256, 8)] + [rb(rng, n) for n in (4, 5, 6, 7, 20)]
        chunks += [b"&#65;&#66;", b"&#x41;&#x42;", b"x&#65;", b"&amp;#65;", b"%41%42%43"]      # plaintext that itself spells references / escapes
        for p in chunks:
            add("xmldec", p, b"".join(b"&#%d;" % c for c in p))
            add("xmlhex", p, b"".join(b"&#x%02x;" % c for c in p))
        for _ in range(60 if not big else 600):
            p = rb(rng, rng.randint(5, 12))
            mask = [rng.choice([0, 1, 2, 3]) for _ in p]
            if rng.random() < 0.5:
                mask[0] = rng.choice([1, 2])          # a run that starts with a hexadecimal reference
                p = bytes(max(c, 100) if m in (0, 3) else c for c, m in zip(p, mask))   # ... and whose decimals have three digits
            parts = []
            for c, m in zip(p, mask):
                parts.append([b"&#%d;" % c, b"&#x%02x;" % c, b"&#X%02X;" % c, b"&#%03d;" % c][m])
            add("xmlmix", p, b"".join(parts), mask=mask)
        cps = [0, 1, 9, 10, 13, 32, 39, 65, 127, 128, 255, 256, 2047, 2048, 55295, 55296, 56000, 57343, 57344, 65535, 65536, 99999]
        cps += [rng.randrange(100000) for _ in range(400 if not big else 6000)]
        if big:
            cps += list(range(0, 100000, 7))
        for cp in list(range(120, 170)) + list(range(250, 260)):          # every function name over the C1 range and the byte boundary
            for name in (b"chr", b"Chr", b"ChrW", b"chrb"):
                add("chr", b"", name + b"(" + str(cp).encode() + b")", opts={"dq": False, "cp": cp}, name=b2l(name), zeros=[])
        for cp in cps:
            name = rng.choice([b"chr", b"Chr", b"ChrW", b"chrb", b"CHRW"])
            zeros = rng.choice([b"", b"", b"0", b"00"])
            add("chr", b"", name + b"(" + zeros + str(cp).encode() + b")", opts={"dq": False, "cp": cp}, name=b2l(name), zeros=b2l(zeros))
        for _ in range(150 if not big else 2500):
            parts = []
            for _k in range(rng.randint(0, 10)):
                r = rng.random()
                if r < 0.5:
                    parts.append(b"%" + rng.choice(HEXL + "ABCDEF").encode() + rng.choice(HEXL + "ABCDEF").encode())
                elif r < 0.6:
                    parts.append(rng.choice([b"%", b"%%", b"%4", b"%G1", b"%u0041"]))
                else:
                    parts.append(rb(rng, rng.randint(1, 3), TEXT.replace(b"'", b"")))
            esc = b"".join(parts)
            add("unescape", b"", b"unescape('" + esc + b"')", escaped=b2l(esc))
        for esc in (b'%3Ciframe src="http://a.example.com/"%3E', b'a"b', b'"', b'""', b'say "%68%69"', b"x`y", b"(%29)", b"a\\b%5C"):
            add("unescape", b"", b"unescape('" + esc + b"')", escaped=b2l(esc))
        ok16 = [c for c in range(256) if c > 8 and not 14 <= c <= 31 and not 127 <= c <= 159]
        for a, b, c in ((7, 7, 0), (7, 6, 0), (9, 12, 8), (8, 8, 7)):
            p = rb(rng, a, ok16) + b"\0" + rb(rng, b, ok16) + ((b"\0" + rb(rng, c, ok16)) if c else b"")
            add("utf16multi", p, b"".join(bytes([x, 0]) for x in p))
        for n in list(range(5, 12)) + [20, 40]:
            for _ in range(4 if not big else 20):
                p = rb(rng, n, [c for c in range(256) if c > 8 and not 14 <= c <= 31 and not 127 <= c <= 159])
                add("utf16", p, b"".join(bytes([c, 0]) for c in p))
    else:  # C15
        lit_alpha = (TEXT + b"\t").replace(b"\\", b"")

        def lit(body: bytes, dq=None) -> bytes:
            q = b'"' if (rng.random() < 0.5 if dq is None else dq) else b"'"
            return q + body + q

        def body(maxn=6) -> bytes:
            if rng.random() < 0.15:       # text that looks like a separator or an entity inside a literal
                return rng.choice([b"a&amp;b", b"&amp;", b"x+y", b"1 & 2", b"?a=1&amp;b=", b"+b", b"a&", b"_ +"]) + rb(rng, rng.randint(0, 2), lit_alpha)
            return rb(rng, rng.randint(0, maxn), lit_alpha)

        seps = [b"+", b"&", b"&amp;", b" + ", b" & ", b" &amp; ", b"\t+\n", b" _\r\n& ", b"+ _\n", b"  +", b"&  "]
        for k in (9, 10, 11, 14, 20, 33):       # long chains (every joint is removed, however many there are)
            for sep in (b" + ", b"&", b" &amp; "):
                add("concat", b"", sep.join(lit(bytes([97 + j % 26]) * (1 + j % 3)) for j in range(k)))
        for _ in range(400 if not big else 6000):
            k = rng.randint(2, 5)
            blob = lit(body())
            for _j in range(k - 1):
                blob += rng.choice(seps) + lit(body())
            add("concat", b"", blob)
        # backslashes between single quotes (ordinary characters there), also as the last character of a literal
        bs_bodies = [b"C:\\Users\\Public\\", b"\\", b"a\\b", b"\\\\srv\\share", b"exe.daolyap\\pmet\\:c", b"x\\", b"\\n", b"\\'"[:1] + b"t"]
        for bb in bs_bodies:
            add("concat", b"", lit(bb, dq=False) + b" + " + lit(b"upd.exe", dq=False))
            add("concat", b"", lit(b"run ", dq=True) + b" & " + lit(bb, dq=False) + b" & " + lit(bb[::-1], dq=False))
            for name in (b"reverse", b"reversed", b"StrReverse"):
                add("reverse", b"", name + b"(" + lit(bb, dq=False) + b")", name=b2l(name))
            add("replace.method", b"", lit(bb + b"zz" + bb, dq=False) + b".replace(" + lit(b"zz", dq=False) + b", " + lit(bb[:2], dq=False) + b")")
            add("replace.ps", b"", lit(bb + b"zz", dq=False) + b" -replace " + lit(b"zz", dq=False) + b"," + lit(bb, dq=False))
        for special in (b"+", b"&", b"a+b", b" + ", b"&amp;", b"", b"x" * 50):
            add("concat", b"", lit(b"ab") + b" + " + lit(special) + b" & " + lit(b"cd"))
        for _ in range(200 if not big else 3000):
            name = rng.choice([b"reverse", b"reversed", b"Reverse", b"StrReverse", b"strreverse", b"REVERSED"])
            ws1, ws2 = rng.choice([b"", b" ", b"\t"]), rng.choice([b"", b" ", b"\n"])
            add("reverse", b"", name + b"(" + ws1 + lit(body(12)) + ws2 + b")", name=b2l(name))
        for _ in range(300 if not big else 4000):
            x = body(10)
            a = x[rng.randrange(len(x)):][:rng.randint(1, 3)] if x and rng.random() < 0.8 else body(2)
            if rng.random() < 0.3 and a:
                x = x + a + a + x[:2] + a          # overlapping / repeated occurrences
            b = body(3)
            c1, c2 = rng.choice([b",", b", ", b" ,", b" , "]), rng.choice([b",", b", "])
            ws = rng.choice([b"", b" "])
            add("replace.method", b"", lit(x) + rng.choice([b".replace(", b".Replace(", b".REPLACE("]) + ws + lit(a) + c1 + lit(b) + ws + b")")
            add("replace.vba", b"", rng.choice([b"Replace(", b"replace("]) + ws + lit(x) + c1 + lit(a) + c2 + lit(b) + ws + b")")
            add("replace.ps", b"", lit(x) + rng.choice([b" -replace ", b"-replace", b" -Replace ", b"\t-replace\t"]) + lit(a) + c1 + lit(b))
            pat = bytes(ch for ch in a if ch not in b"/[](){}\\.+*?^$,") or b"q"
            add("replace.js", b"", lit(x) + b".replace(/" + pat + b"/" + rng.choice([b"", b"g", b"gi", b"gim"]) + c1 + lit(b) + ws + b")")
    return out


def run(prop: str, tier: str) -> int:
    use_repo()
    from multidecoder.multidecoder import Multidecoder

    res = Result(prop, tier, "exploration")
    res.assumptions += [
        "instances are proposed by the harness but TLC re-encodes each payload itself and decides membership in the documented domain",
        "regular-expression languages are sampled on boundary grids, not proved",
        "neutral surroundings: " + repr(PRE) + " / " + repr(SUF),
    ]
    r = tlc.run("CodecMC", "CodecMC.cfg", cache=True, timeout=1200)
    tlc.must_pass(r, "CodecMC")
    res.stage("CodecMC (round-trip theorems of the encoders used by the grids)", dict(r.summary(), cached=r.cached))
    res.coverage["spec_states"] = r.distinct

    if prop == "C13":
        from . import helpers_stage

        helpers_stage.run(res, "pad", tier)
    rng = drivers.rng_for("decode:" + prop)
    md = Multidecoder()
    work = scratch("dec")
    path = os.path.join(work, "ev.ndjson")
    events: list[dict] = []
    seen: set[str] = set()

    def push(ev: dict) -> None:
        key = json.dumps(ev, sort_keys=True)
        if key not in seen:
            seen.add(key)
            events.append(ev)

    # direction A
    insts = instances(prop, tier, rng)
    for i, inst in enumerate(insts):
        pre, suf = PRE[i % len(PRE)], SUF[(i // len(PRE)) % len(SUF)]
        blob = bytes(inst["blob"])
        if inst["enc"] in ("b64", "hex") and suf in (b"",) and i % 2:
            suf = b" "
        data = pre + blob + suf
        try:
            md.scan(data)
            tree = md.scan(data)        # judged on the second scan of the same buffer by the same scanner (results must not depend on history)
        except Exception as e:  # noqa: BLE001
            inst = dict(inst, pre=b2l(pre), suf=b2l(suf), found=[], raised=type(e).__name__)
            push(inst)
            continue
        push(dict(inst, pre=b2l(pre), suf=b2l(suf), found=found_at(tree)))
        for ev in node_events(tree, LABELS[prop]):
            push(ev)
    # direction B: labelled nodes met in other scans
    inputs = list(drivers.repo_literals()) + list(drivers.token_soup(rng, 300 if tier == "quick" else 5000))
    inputs += list(drivers.nested(rng, 100 if tier == "quick" else 1500))
    lits = drivers.repo_literals()
    for _ in range(200 if tier == "quick" else 4000):
        inputs.append(drivers.mutate(rng, rng.choice(lits))[:4096])
    if prop == "C14":
        run1, run2 = b"h\0e\0l\0l\0o\0 \0w\0o\0", b"s\0e\0c\0o\0n\0d\0 \0r\0u\0n\0"
        for nul in range(1, 8):
            inputs += [run1 + b"\0" * nul + run2, b"x " + run1 + b"\0" * nul + run2 + b"\0\0 tail"]
    if prop == "C13":
        # xor forms: every key 0..999 (sampled in the quick tier) in three spellings, on base64 / hex call forms and byte arrays
        keys = list(range(0, 1000)) if tier == "thorough" else sorted(set(list(range(0, 1000, 37)) + [0, 1, 35, 127, 128, 254, 255, 256, 257, 300, 999]))
        for kx in keys:
            p = rb(rng, rng.randint(4, 24))
            if kx % 2 and kx < 256:
                p = bytes([kx]) * (1 + kx % 3) + p          # the plaintext starts with NUL bytes
            form = [b"-bxor %d", b"-xor %d", b"-BXOR\t%d"][kx % 3] % kx
            call = [b"FromBase64String('" + base64.b64encode(p) + b"')", b"[System.Convert]::FromHexString('" + hexenc(p + bytes(10), kx % 2 == 0) + b"')"][kx % 2]
            inputs.append(b"$k = " + form + b"; " + call)
            if kx > 255:
                inputs.append(b"$k = " + form + b"; " + call)          # the same out-of-range key met twice in a row
        # tokens that are hexadecimal in mixed letter case (all of them base64 characters too), with same-case runs inside
        inputs += [b"FromHexString('6475636b20676F657320717561636b')", b"[System.Convert]::FromHexString('6475636B20676f657320717561636B6475')", b"fromhexstring('ABCDEFabcdef0123456789')"]
        for tok in (b"abcdef0123456789ABCDEF01", b"ABCD0123456789abcdef0123", b"deadbeefDEADBEEF0123456789ab", b"0123456789abcdefABCDEF0123456789", b"AbCdEf0123456789aBcDeF01"):
            inputs += [tok, b"id=" + tok + b";", b"x " + tok + b" y " + tok.swapcase()]
        for kx in (0, 35, 255, 300):
            arr = b",".join(rng.choice([b"%d", b"0x%02x", b" %d"]) % rng.randrange(256) for _ in range(520))
            inputs.append(arr + b" | % { $_ -bxor " + str(kx).encode() + b" }")
        for style in range(3):
            vals = [rng.randrange(256) for _ in range(505)]
            inputs.append(b",".join([b"%d", b"0x%02x", b" %d", b"\n%d"][(i * (style + 1)) % 4] % v for i, v in enumerate(vals)))
        for period in (1, 3, 4, 0):
            key = rb(rng, period) if period else b"\x21\x00\x43\x00"          # (a key with zero bytes in it)
            period = period or 4
            plain = (b"This program cannot be run in DOS mode. " * 14)[:520]
            arr = b",".join(b"%d" % (c ^ key[i % period]) for i, c in enumerate(plain))
            inputs.append(arr + b" -bxor $key")
        # lengths that are not a multiple of the key length, and an array longer than any plausible work bound (4 KiB, 64 KiB pages)
        for period, n in ((3, 701), (4, 802), (7, 1501), (4, 4500)):
            key = rb(rng, period)
            plain = (b"This program cannot be run in DOS mode. " * 120)[:n]
            inputs.append(b",".join(b"%d" % (c ^ key[i % period]) for i, c in enumerate(plain)) + b" -bxor $key")
    for data in inputs:
        try:
            tree = md.scan(data)
        except Exception:  # noqa: BLE001  (C01's business)
            continue
        for ev in node_events(tree, LABELS[prop]):
            push(ev)
    with open(path, "w") as f:
        for ev in events:
            f.write(json.dumps(ev) + "\n")
    n = len(events)
    v, r = tlc.run_trace("NodeRel", "SPECIFICATION Spec\nCHECK_DEADLOCK FALSE\n", path, n, max_lines=40000, max_bytes=40_000_000)
    mine = CLAUSES[prop]
    na = sum(1 for cl in v.values() if "n/a" in cl)
    for t, cl in v.items():
        for c in cl:
            if c.startswith("machinery"):
                raise MachineryError(f"harness and specification disagree on an encoding: {events[t - 1]}")
            if c in mine:
                ev = events[t - 1]
                if ev["kind"] == "inst":
                    blob = bytes(ev["blob"])
                    facts = {"clause": c, "enc": ev["enc"]}
                    if ev["enc"] == "hex":
                        digits = len(blob) - len(blob.lstrip(b"0123456789"))
                        facts["upper_with_digit_prefix_of_10_pairs"] = bool(ev["opts"].get("upper") and digits >= 20 and digits < len(blob))
                    what = (f"instance not decoded as one unit: enc={ev['enc']} blob={blob[:120]!r} in {bytes(ev['pre'])!r}..{bytes(ev['suf'])!r}; "
                            f"nodes at that place: {[(f['ty'], f['obf'], f['s'], f['e']) for f in ev['found']][:6]}")
                else:
                    facts = {"clause": c, "ty": ev["ty"], "obf": ev["obf"]}
                    what = (f"node ({ev['ty']!r}, {ev['obf']!r}) value {bytes(ev['val'])[:80]!r} is not the {c} decoding of the text it covers "
                            f"{bytes(ev['cov'])[:120]!r}")
                res.violation(what, facts, {"kind": "node-relation", "event": ev,
                                            "input_hex": (bytes(ev.get("pre", [])) + bytes(ev.get("blob", [])) + bytes(ev.get("suf", []))).hex()})
    res.coverage["evaluations"] = n
    res.coverage["distinct_nontrivial"] = n - na
    res.coverage["not_judged_outside_domain"] = na
    res.coverage["instances"] = len(insts)
    res.coverage["node_events"] = sum(1 for e in events if e["kind"] == "node")
    res.coverage["traces_validated_against_impl"] = n
    res.coverage["rule"] = ("distinct events (labelled nodes of real scans; grid instances embedded between neutral delimiters at varying offsets); "
                            "non-trivial = judged by TLC (inside the documented domain)")
    for e in events[:3]:
        res.sample({k: (bytes(x).decode("latin-1") if isinstance(x, list) and k in ("blob", "cov", "val", "payload") else x)
                    for k, x in e.items() if k in ("kind", "enc", "blob", "ty", "obf", "cov", "val")})
    return res.finish()
