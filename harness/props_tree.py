"""C19 (flattening) and C20 (JSON, CLI): Tree.tla / TreeMC.tla model-checked, TreeTrace.tla on real trees."""
from __future__ import annotations

import json
import os
import random
import subprocess
import sys
import warnings
from concurrent.futures import ThreadPoolExecutor

from . import drivers, tlc
from .common import NCPU, PY, SEED, SRC, MachineryError, Result, scratch, use_repo

TREE_CFG = {
    "q": dict(RootVal="RV_abc", KidVals="KV_q", Types="TY_q", GVals="KV_q", GTypes="TY_0", MaxKids=2, MaxGrand=1),
    "t1": dict(RootVal="RV_abcd", KidVals="KV_q", Types="TY_q", GVals="KV_q", GTypes="TY_0", MaxKids=2, MaxGrand=1),
    "t2": dict(RootVal="RV_aa", KidVals="KV_q", Types="TY_0", GVals="KV_q", GTypes="TY_0", MaxKids=3, MaxGrand=1),
    "t3": dict(RootVal="RV_abc", KidVals="KV_q", Types="TY_0", GVals="KV_q", GTypes="TY_0", MaxKids=2, MaxGrand=2),
}
TREE_INVS = ["Refines", "UnchangedId", "SquashAgrees", "RoundTrip", "IterOnce", "Injective"]


def tree_cfg(name: str, gen: bool = False) -> str:
    c = TREE_CFG[name]
    lines = ["CONSTANTS"]
    for k, v in c.items():
        lines.append(f" {k} <- {v}" if isinstance(v, str) else f" {k} = {v}")
    if gen:
        lines += ["INIT Init", "NEXT Next"]
    else:
        lines += ["SPECIFICATION Spec"] + [f"INVARIANT {i}" for i in TREE_INVS] + ["PROPERTY Terminates"]
    lines.append("CHECK_DEADLOCK FALSE")
    return "\n".join(lines) + "\n"


def model_check(res: Result, names: list[str]) -> None:
    for name in names:
        r = tlc.run("TreeMC", tree_cfg(name), cache=True, timeout=3000, heap="12g")
        tlc.must_pass(r, f"TreeMC[{name}]")
        res.add("states", r.distinct)
        res.add("transitions", r.generated)
        res.stage(f"TreeMC[{name}]", dict(r.summary(), constants=TREE_CFG[name], cached=r.cached, invariants=TREE_INVS,
                                         liveness="Terminates"))


# ------------------------------------------------------------------------------------------
# projection of real Node trees and the views the implementation computes


def b2l(b: bytes) -> list[int]:
    return list(b)


def proj(n) -> dict:
    return {"ty": b2l(n.type.encode()), "obf": b2l(n.obfuscation.encode()), "val": b2l(n.value), "s": n.start,
            "e": n.end, "kids": [proj(c) for c in n.children]}


def doc_bytes(d: dict) -> dict:
    return {"type": b2l(d["type"].encode()), "value": b2l(d["value"].encode()), "obfuscation": b2l(d["obfuscation"].encode()),
            "start": d["start"], "end": d["end"], "children": [doc_bytes(c) for c in d["children"]]}


def build(t: dict, node_cls):
    return node_cls(bytes(t["ty"]).decode(), bytes(t["val"]), bytes(t["obf"]).decode(), t["s"], t["e"],
                    children=[build(k, node_cls) for k in t["kids"]] or None)


def paths_of(root) -> dict[int, list[int]]:
    out: dict[int, list[int]] = {}

    def walk(n, path):
        for i, c in enumerate(n.children, 1):
            out.setdefault(id(c), path + [i])
            walk(c, path + [i])

    walk(root, [])
    return out


def links_ok(n) -> bool:
    return all(c.parent is n and links_ok(c) for c in n.children)


def unlink(root, rng: random.Random) -> None:
    """Parent links dropped or left stale (a tree assembled by appending to children lists, a sub-tree grafted from another
    tree): what flatten() returns is a function of values, spans and children lists only."""
    for n in list(root):
        r = rng.random()
        if r < 0.4:
            n.parent = None
        elif r < 0.7:
            n.parent = type(root)("stale", bytes(rng.randrange(256) for _ in range(rng.randrange(0, 6))), "", 0, 0)


def observe(root, rng: random.Random, *, mutants: bool = True, only_flatten: bool = False) -> dict:
    """Everything the library says about this tree.  Failures are recorded, not raised."""
    from multidecoder.json_conversion import json_to_tree, tree_to_json
    from multidecoder.query import squash_replace, string_summary

    rec: dict = {"tree": proj(root), "failed": []}

    def attempt(name, fn):
        try:
            rec[name] = fn()
        except Exception as e:  # noqa: BLE001
            rec["failed"].append(f"{name}:{type(e).__name__}")

    attempt("flatten", lambda: b2l(root.flatten()))
    if "flatten" not in rec:
        rec["flatten"] = [-1]           # no byte string at all: never equal to what Tree.Flatten yields
    if only_flatten:
        return rec
    with warnings.catch_warnings():
        warnings.simplefilter("ignore")
        attempt("squash", lambda: b2l(squash_replace(root.value, root.children)))
    attempt("summary", lambda: [b2l(s.encode()) for s in string_summary(root)])
    pth = paths_of(root)
    attempt("iter", lambda: [pth.get(id(n), [-1]) for n in root])
    attempt("doc", lambda: doc_bytes(json.loads(tree_to_json(root))))

    def back():
        b = json_to_tree(tree_to_json(root))
        rec["backLinks"] = links_ok(b) and b.parent is None
        return proj(b)

    attempt("back", back)
    if "back" not in rec:
        rec["backLinks"] = False
    if mutants:
        # the rest of the Node / query API (beyond the listed properties; judged as clauses api.*)
        from multidecoder.node import shift_nodes
        from multidecoder.query import invert_tree, obfuscation_counts

        attempt("orig", lambda: [b2l(n.original) for n in root])
        k = rng.choice([-3, -1, 0, 1, 2, 7, 1000])

        def shifts():
            m1, m2 = build(rec["tree"], type(root)), build(rec["tree"], type(root))
            same = True
            if m1.children:
                same = m1.children[0].shift(k) is m1.children[0]
            same = same and shift_nodes(m2.children, k) is m2.children
            rec["shiftK"], rec["shiftAll"], rec["shiftSame"] = k, proj(m2), same
            return proj(m1)

        attempt("shiftOne", shifts)
        with warnings.catch_warnings():
            warnings.simplefilter("ignore")
            attempt("invert", lambda: [pth.get(id(n), [-1]) for n in invert_tree(root.children)])
            attempt("obfcounts", lambda: sorted([b2l(key.encode()), cnt] for key, cnt in obfuscation_counts(root.children).items()))
        rec["eqs"] = []
        nodes = [root] + list(root)
        for _ in range(3):
            m = build(rec["tree"], type(root))
            target = ([m] + list(m))[rng.randrange(len(nodes))]
            f = rng.randrange(10)
            if f >= 8:     # structure: same nodes in the same pre-order, another shape (a last child becomes the next sibling, or the reverse)
                pairs = [(par, x) for par in [m] + list(m) for x in par.children if x.children]
                sibs = [(par, i) for par in [m] + list(m) for i in range(len(par.children) - 1) if not par.children[i].children]
                if pairs and (f == 8 or not sibs):
                    par, x = pairs[rng.randrange(len(pairs))]
                    if not x.children[-1].children:      # (keeps the pre-order: the moved node is the last one of x's sub-tree)
                        moved = x.children.pop()
                        moved.parent = par
                        par.children.insert(par.children.index(x) + 1, moved)
                elif sibs:
                    par, i = sibs[rng.randrange(len(sibs))]
                    moved = par.children.pop(i + 1)
                    if not moved.children:
                        moved.parent = par.children[i]
                        par.children[i].children.append(moved)
                    else:
                        par.children.insert(i + 1, moved)
            elif f == 6:     # structure: a node loses its last child (deep nodes preferred)
                cands = [x for x in [m] + list(m) if x.children]
                if cands:
                    cands[-1 if rng.random() < 0.6 else rng.randrange(len(cands))].children.pop()
            elif f == 7:   # structure: a node gains a child
                type(root)("extra", b"x", "", 0, 0, parent=target)
                target.children.append(type(root)("extra", b"x", "", 0, 0, parent=target))
            elif f == 0:
                target.start += 1
            elif f == 1:
                target.end += 1
            elif f == 2:
                target.type += "x"
            elif f == 3:
                target.obfuscation += "x"
            elif f == 4:
                target.value += b"\0"
            # f == 5: an identical copy (must compare equal)
            try:
                rec["eqs"].append({"m": proj(m), "eq": bool(m == root), "jeq": tree_to_json(m) == tree_to_json(root)})
            except Exception as e:  # noqa: BLE001
                rec["failed"].append(f"eq:{type(e).__name__}")
    return rec


# ------------------------------------------------------------------------------------------


def export_universe(name: str) -> list[dict]:
    out = os.path.join(scratch("gen"), "trees.json")
    r = tlc.run("TreeGen", tree_cfg(name, gen=True), env={"OUT_FILE": out}, workers=1, timeout=1200, heap="12g")
    if not os.path.exists(out):
        raise MachineryError("TreeGen produced no universe:\n" + r.out[-2000:])
    with open(out) as f:
        return json.load(f)


TRACE_CFG = "SPECIFICATION Spec\nCHECK_DEADLOCK FALSE\n"


def validate(path: str, n: int, workers=8):
    return tlc.run_trace("TreeTrace", TRACE_CFG, path, n, workers=workers)


def scan_inputs(tier: str, tag: str) -> list[bytes]:
    rng = drivers.rng_for(tag)
    lits = drivers.repo_literals()
    n_soup, n_mut, n_nest = (250, 150, 60) if tier == "quick" else (4000, 2500, 600)
    inputs = list(lits) + list(drivers.token_soup(rng, n_soup))
    for _ in range(n_mut):
        inputs.append(drivers.mutate(rng, rng.choice(lits))[:4096])
    inputs += list(drivers.nested(rng, n_nest))
    return inputs


CLI_MODES = [[], ["--json"], ["--replace"]]


def cli_sessions(inputs: list[bytes], work: str, rng: random.Random) -> list[dict]:
    """Run the command line as a subprocess (file argument or stdin, each output mode, optionally a
    keyword directory) and pair what it printed with the in-process tree for the same bytes."""
    from multidecoder.multidecoder import Multidecoder
    from multidecoder.registry import build_registry

    kwdir = os.path.join(work, "kw")
    os.makedirs(os.path.join(kwdir, "sub"), exist_ok=True)
    with open(os.path.join(kwdir, "verif.words"), "wb") as f:
        # (some of the words are whole indicators: a keyword hit then has exactly the span of a built-in hit, and which of the two
        # becomes the parent is decided by the order of the registry - the command line must build the library's registry)
        f.write(b"evil\r\n\r\nGetProcAddress\nexample\nevil-site.net\na.exe\nmalware.exe\n10.20.30.40\n")
    with open(os.path.join(kwdir, "sub", "more.words"), "wb") as f:
        f.write(b"powershell\nIEX\n")
    with open(os.path.join(kwdir, "mots-cl\u00e9s.words"), "wb") as f:       # a label that is not ASCII
        f.write(b"echo\nhttp\ncmd\n")
    env = dict(os.environ, PYTHONPATH=SRC, PYTHONIOENCODING="utf-8")
    jobs = []
    for i, data in enumerate(inputs):
        mode = CLI_MODES[i % 3]
        use_stdin = (i // 3) % 2 == 1
        use_kw = (i // 6) % 3 == 2
        p = os.path.join(work, f"in{i}.bin")
        with open(p, "wb") as f:
            f.write(data)
        cmd = [PY, "-m", "multidecoder"] + ([] if use_stdin else [p]) + mode + (["--keywords", kwdir] if use_kw else [])
        jobs.append((data, mode, use_stdin, use_kw, cmd))

    def run(job):
        data, mode, use_stdin, use_kw, cmd = job
        if use_stdin and len(data) > 40:
            # a writer that pauses: the input reaches the pipe in several pieces (a reader must go on until end of file)
            import threading
            import time as _t

            pr = subprocess.Popen(cmd, stdin=subprocess.PIPE, stdout=subprocess.PIPE, stderr=subprocess.PIPE, env=env)

            def feed():
                try:
                    pr.stdin.write(data[:17])
                    pr.stdin.flush()
                    _t.sleep(0.4)
                    pr.stdin.write(data[17:])
                    pr.stdin.close()
                except OSError:
                    pass

            th = threading.Thread(target=feed)
            th.start()
            out = pr.stdout.read()
            err = pr.stderr.read()
            th.join()
            return pr.wait(timeout=300), out, err
        e2 = env
        if mode == ["--json"] and use_kw:
            e2 = dict(env, PYTHONIOENCODING="ascii")       # JSON output is ASCII by construction: it has to survive an ASCII-only stdout
        pr = subprocess.run(cmd, input=data if use_stdin else None, capture_output=True, env=e2, timeout=300)
        return pr.returncode, pr.stdout, pr.stderr

    with ThreadPoolExecutor(NCPU) as ex:
        outs = list(ex.map(run, jobs))
    md_default = Multidecoder()
    md_kw = Multidecoder(build_registry(kwdir))
    recs = []
    for (data, mode, use_stdin, use_kw, cmd), (rc, out, err) in zip(jobs, outs):
        tree = (md_kw if use_kw else md_default).scan(data)
        rec = {"tree": proj(tree), "failed": [], "origin": "cli " + " ".join(mode + (["stdin"] if use_stdin else ["file"]) + (["keywords"] if use_kw else [])),
               "input": data.hex()}
        if rc != 0 or b"Traceback" in err:
            rec["failed"].append(f"cli:rc={rc}:{err[-200:].decode(errors='replace')}")
        elif mode == ["--json"]:
            try:
                rec["doc"] = doc_bytes(json.loads(out.decode()))
            except Exception as e:  # noqa: BLE001
                rec["failed"].append(f"cli-json:{type(e).__name__}")
        elif mode == ["--replace"]:
            rec["squash"] = b2l(out)
        else:
            text = out.decode("utf-8")
            lines = text.split("\n")
            if lines and lines[-1] == "":
                lines.pop()
            rec["summary"] = [b2l(s.encode()) for s in lines]
        recs.append(rec)
    return recs


def cli_outcomes(work: str, res) -> None:
    """The command line's control flow incl. its error paths, judged by Cli.tla on (exit status, stdout?, stderr?)."""
    from multidecoder.multidecoder import Multidecoder

    env = dict(os.environ, PYTHONPATH=SRC, PYTHONIOENCODING="utf-8")
    good = os.path.join(work, "good.bin")
    with open(good, "wb") as f:
        f.write(b"get http://evil-site.net/a.exe now")
    plain = os.path.join(work, "plain.bin")
    with open(plain, "wb") as f:
        f.write(b"zzzz qqqq")
    empty = os.path.join(work, "empty.bin")
    open(empty, "wb").close()
    kwdir = os.path.join(work, "kwok")
    os.makedirs(kwdir, exist_ok=True)
    with open(os.path.join(kwdir, "w.list"), "wb") as f:
        f.write(b"zzzz\n")
    md = Multidecoder()
    cases = []
    for mode in ([], ["--json"], ["--replace"], ["-j"], ["-r"]):
        for path, ok in ((good, True), (plain, True), (empty, True), (os.path.join(work, "missing.bin"), False), (work, False)):
            cases.append((mode + [path], None, dict(fileGiven=True, fileOK=ok)))
        cases.append((mode, b"stdin http://evil-site.net/b.exe", dict(fileGiven=False, fileOK=True)))
        cases.append((mode + ["--keywords", good, plain], None, dict(fileGiven=True, fileOK=True, kwGiven=True, kwIsDir=False)))
        cases.append((mode + ["-k", os.path.join(work, "nodir"), plain], None, dict(fileGiven=True, fileOK=True, kwGiven=True, kwIsDir=False)))
        cases.append((mode + ["--keywords", kwdir, plain], None, dict(fileGiven=True, fileOK=True, kwGiven=True, kwIsDir=True)))
    cases.append((["--json", "--replace", good], None, dict(fileGiven=True, fileOK=True)))
    cases.append((["-j", "-r"], b"x", dict(fileGiven=False, fileOK=True)))
    cases.append((["--frobnicate", good], None, dict(fileGiven=True, fileOK=True, badopt=True)))
    cases.append((["--version"], None, dict(fileGiven=False, fileOK=True, version=True)))
    cases.append((["-V", good], None, dict(fileGiven=True, fileOK=True, version=True)))

    def run(case):
        args, stdin, facts = case
        pr = subprocess.run([PY, "-m", "multidecoder"] + args, input=stdin if stdin is not None else b"", capture_output=True, env=env, timeout=300)
        return pr.returncode, pr.stdout, pr.stderr

    with ThreadPoolExecutor(NCPU) as ex:
        outs = list(ex.map(run, cases))
    recs = []
    for (args, stdin, facts), (rc, out, err) in zip(cases, outs):
        data = stdin if stdin is not None else b""
        for a in args:
            if os.path.isfile(a) and a not in (args[args.index("--keywords") + 1] if "--keywords" in args else None,):
                with open(a, "rb") as f:
                    data = f.read()
        kw_ok = facts.get("kwIsDir", False)
        tree = (Multidecoder(__import__("multidecoder.registry", fromlist=["build_registry"]).build_registry(kwdir)) if kw_ok else md).scan(data)
        rec = dict(json=("--json" in args or "-j" in args), replace=("--replace" in args or "-r" in args), badopt=False, version=False,
                   fileGiven=False, fileOK=True, kwGiven=False, kwIsDir=False, treeEmpty=not tree.children, inputEmpty=not data,
                   rc=rc, out=bool(out), err=bool(err.strip()), args=args)
        rec.update(facts)
        recs.append(rec)
    path = os.path.join(work, "cli.ndjson")
    with open(path, "w") as f:
        for r_ in recs:
            f.write(json.dumps(r_) + "\n")
    r = tlc.run("Cli", "SPECIFICATION Spec\nCHECK_DEADLOCK FALSE\n", env={"TRACE_FILE": path}, timeout=600)
    v = r.verdicts()
    if not r.completed or len(v) != len(recs):
        raise MachineryError(f"Cli: {len(v)}/{len(recs)} judged\n" + r.diagnosis())
    res.add("trace_states", r.distinct)
    res.coverage["cli_outcome_sessions"] = len(recs)
    for t, cl in v.items():
        if "REJECT" in cl:
            rec = recs[t - 1]
            res.violation(f"command line outcome not a behaviour of Cli.tla: args {rec['args']} -> rc={rec['rc']} stdout={'yes' if rec['out'] else 'no'} "
                          f"stderr={'yes' if rec['err'] else 'no'}", {"clause": "cli.outcome"}, {"kind": "cli-outcome", "session": rec})


def clause_map(prop: str) -> set[str]:
    if prop == "C19":
        return {"flatten", "unchanged"}
    return {"doc", "back", "eq", "summary", "squash", "replace", "raised", "iter"}


def run(prop: str, tier: str) -> int:
    use_repo()
    from multidecoder.multidecoder import Multidecoder
    from multidecoder.node import Node

    res = Result(prop, tier, "model_checking")
    res.assumptions += [
        "the projection of Node objects (walking children lists, reading the six fields) and Python's json module are trusted",
        "bounded tree universe as recorded under coverage.stages",
    ]
    model_check(res, ["q"] if tier == "quick" else ["q", "t1", "t2", "t3"])
    rng = drivers.rng_for("tree:" + prop)
    work = scratch("tree")
    path = os.path.join(work, "trees.ndjson")
    n = 0
    nontrivial = 0
    with open(path, "w") as f:
        # direction A: the universe TLC explored, built from real Node objects
        for fam, sample in ([("q", 2500)] if tier == "quick" else [("q", 20000), ("t2", 15000), ("t3", 10000)]):
            uni = export_universe(fam)
            pick = uni if len(uni) <= sample else random.Random(SEED + 5).sample(uni, sample)
            for t in pick:
                rec = observe(build(t, Node), rng, mutants=(prop == "C20"))
                rec["origin"] = f"universe {fam}"
                f.write(json.dumps(rec) + "\n")
                n += 1
                nontrivial += 1 if t["kids"] else 0
                if prop == "C19" and t["kids"] and n % 3 == 0:
                    root = build(t, Node)
                    unlink(root, rng)
                    rec = observe(root, rng, mutants=False, only_flatten=True)
                    rec["origin"] = f"universe {fam}, parent links dropped / stale"
                    f.write(json.dumps(rec) + "\n")
                    n += 1
            res.sample({"universe": fam, "trees": len(uni), "replayed": len(pick)})
        # random deeper trees with all byte values and non-ASCII labels (C20's quantifier)
        for i in range(300 if tier == "quick" else 6000):
            root = random_tree(rng, Node, depth=rng.randint(1, 5 if i % 50 else 40))
            rec = observe(root, rng, mutants=(prop == "C20"))
            rec["origin"] = "random tree"
            f.write(json.dumps(rec) + "\n")
            n += 1
            nontrivial += 1
            if prop == "C19" and i % 2:
                unlink(root, rng)
                rec = observe(root, rng, mutants=False, only_flatten=True)
                rec["origin"] = "random tree, parent links dropped / stale"
                f.write(json.dumps(rec) + "\n")
                n += 1
        # direction B: real scan results
        md = Multidecoder()
        inputs = scan_inputs(tier, "tree-scan:" + prop)
        for data in inputs:
            tree = md.scan(data, rng.choice([10, 10, 2, 1]))
            rec = observe(tree, rng, mutants=(prop == "C20"))
            rec["origin"] = "scan"
            rec["input"] = data.hex()
            f.write(json.dumps(rec) + "\n")
            n += 1
            nontrivial += 1 if tree.children else 0
        res.sample({"scan_input": inputs[-1].decode("latin-1")})
        if prop == "C20":
            cli_in = inputs[:: max(1, len(inputs) // (36 if tier == "quick" else 600))]
            # bytes a command line might be tempted to "clean up": byte-order marks, leading / trailing white space, CR LF, NUL
            base = b"cmd /c echo http://evil-site.net/a.exe 6576696c2e636f6d2f6d616c77617265"
            cli_in += [b"\xef\xbb\xbf" + base, b"\xff\xfe" + base, b"\xfe\xff" + base, b"\n\n  " + base + b"  \r\n\r\n", b"\x00" + base + b"\x00",
                       base + b"\n", b"\xef\xbb\xbf", b"\r\n", base.replace(b" ", b"\xa0"), b"\x1a" + base]
            # more than a pipe buffer (64 KiB) of input, with the indicators at the very end
            big = (b"filler line 7;\n" * 4500) + b"get http://evil-site.net/malware.exe now\n"
            cli_in += [big, big, big, big, big, big]          # every output mode, file argument and stdin
            for rec in cli_sessions(cli_in, work, rng):
                f.write(json.dumps(rec) + "\n")
                n += 1
                nontrivial += 1
            res.coverage["cli_sessions"] = len(cli_in)
            cli_outcomes(work, res)
    verdicts, r = validate(path, n, workers="auto")
    res.add("trace_states", r.distinct)
    mine = clause_map(prop)
    with open(path) as f:
        lines = f.read().splitlines()
    extra: dict[str, int] = {}
    for t, cl in verdicts.items():
        for c in cl:
            if c.startswith("api.") or c.startswith("note."):
                extra[c] = extra.get(c, 0) + 1
                if c.startswith("api.") and extra[c] <= 3:
                    print(f"NOTE beyond the listed properties: TreeTrace clause {c} rejects trace {t} ({json.loads(lines[t - 1]).get('origin')})")
            if c in mine:
                tr = json.loads(lines[t - 1])
                facts = {"clause": c, "origin": tr.get("origin", "?").split(" ")[0], "failed": tr.get("failed", [])[:2]}
                res.violation(f"TreeTrace rejects clause {c} ({tr.get('origin')}; failed={tr.get('failed')})", facts,
                              {"kind": "tree-trace", "clauses": cl, "trace": tr if len(lines[t - 1]) < 100000 else "omitted",
                               "input_hex": tr.get("input")})
    if prop == "C20":
        res.coverage["beyond_listed_properties"] = {
            "judged": "Node.original, Node.shift / shift_nodes, query.invert_tree, query.obfuscation_counts (as coded) on every tree",
            "mismatches": {c: k_ for c, k_ in extra.items() if c.startswith("api.")},
            "trees_where_obfuscation_counts_counts_characters_not_labels": extra.get("note.obfcounts.percharacter", 0)}
    res.coverage["traces_validated_against_impl"] = n
    res.coverage["evaluations"] = n
    res.coverage["distinct_nontrivial"] = nontrivial
    res.coverage["rule"] = ("trees of TreeMC's universe built from Node objects, random deep trees (all byte values, non-ASCII labels), "
                            "results of real scans" + (", CLI sessions" if prop == "C20" else "") +
                            "; non-trivial = the tree has at least one child")
    return res.finish()


LABELS = ["", "string", "xstring", "vba.string", "network.url", "é", "日本", "shell.cmd", "strings", "a/b", ">x"]


def random_tree(rng: random.Random, node_cls, depth: int):
    def val():
        n = rng.choice([0, 1, 2, 3, 5, 8])
        return bytes(rng.choice([rng.randrange(256), rng.choice(b"ab'\"\\\n\t\r \x7f\x80")]) for _ in range(n))

    def mk(pval: bytes, d: int):
        kids = []
        pos = 0
        for _ in range(rng.choice([0, 1, 1, 2, 3]) if d > 0 else 0):
            if rng.random() < 0.25:
                pos = max(0, pos - 1)  # overlapping / equal starts
            s = rng.randint(pos, len(pval))
            e = rng.randint(s, len(pval))
            v = pval[s:e] if rng.random() < 0.35 else val()
            s0 = s
            if rng.random() < 0.04:       # spans no scan should produce, but a tree may hold: end before start, negative start
                s, e = rng.choice([(e + 1, s), (-rng.randint(1, 9), e), (s, -1)])
            c = node_cls(rng.choice(LABELS), v, rng.choice(LABELS[:4] + ["obf.é"]), s, e)
            sub = mk(v, d - 1 if d < 10 else d - 1)
            c.children = sub
            for k in sub:
                k.parent = c
            kids.append(c)
            pos = s0
        return kids

    root = node_cls(rng.choice(["", "", "root"]), val() + b"abc", rng.choice(["", "", "o"]), 0, 0)
    root.end = len(root.value)
    if depth > 10:  # one deep chain
        cur = root
        for _ in range(depth):
            c = node_cls(rng.choice(LABELS), val() + b"x", "", 0, min(1, len(cur.value)), parent=cur)
            cur.children = [c]
            cur = c
        return root
    root.children = mk(root.value, depth)
    for k in root.children:
        k.parent = root
    return root
