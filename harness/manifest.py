"""Single source for MANIFEST.json (run: /venv/bin/python -m harness.manifest)."""
from __future__ import annotations

import json
import os

VERIF = os.path.dirname(os.path.dirname(os.path.abspath(__file__)))

TRUST = ("TLC 1.8 and its CommunityModules (Json, SequencesExt); the recording wrapper around registry entries "
         "(snapshot at return, object identities); Python's json; bounded universes as recorded in the evidence file")

CHECKS = {
    "C04": dict(
        level="model_checking", ref="5 (C04), 3.1, 4",
        technique="TLA+ engine machine (Scan.tla) model-checked with TLC: invariant AbsPos; trace validation (ScanTrace.tla) of recorded real scans, clause `abs`",
        text="TLC checks AbsPos/ChainIsContext in every state of every world of a bounded family (all hit configurations over a 3-byte input, <=2 top-level x <=1 nested hits, K in 0..3; larger families in the thorough tier). The same machine validates recorded executions of the real engine (TLC's own worlds replayed through synthetic registries, and scans with the shipped decoders); for each recorded hit that was kept, TLC recomputes from the raw snapshot that the attached node denotes the reported bytes.",
    ),
    "C05": dict(
        level="model_checking", ref="5 (C05), 3.1, 4",
        technique="TLA+ engine machine model-checked with TLC: invariants Laminar, NoDoubleReport (the pinned defect variant must violate both); trace validation of recorded scans, clauses `lam`, `dbl`",
        text="Exhaustive in the bounded family for the spec; on the implementation side every recorded child list built by the engine (synthetic worlds and shipped decoders, all nesting levels) is checked by TLC for non-decreasing starts / strictly increasing ends and for reports from inside a decoded sibling.",
    ),
    "C06": dict(
        level="model_checking", ref="5 (C06), 3.1, 4, Appendix A.1",
        technique="TLC: refinement of the code-shaped engine machine against the declarative interval-nesting reference (Conforms, NoLoss) over every world of the family; trace validation: machine tree = observed tree = reference tree",
        text="The reference procedure of C06 is a recursive TLA+ operator without stack or offsets; TLC checks machine = reference for every world in the bound and every registry order (hits are sequences). Each recorded real scan is replayed in the machine on the recorded world and compared node for node (parents by identity) and against the reference.",
    ),
    "C07": dict(
        level="model_checking", ref="5 (C07), 3.1",
        technique="TLC: invariants DepthBound, PrefixDone and liveness TerminatesDone (weak fairness) incl. self-reproducing worlds; trace validation of scan(x,k) together with scan(x,k-1), clauses `depth`, `prefix`, `searched`",
        text="Termination and the depth accounting are model-checked (K in -1..5 across tiers, worlds whose every decoded value decodes again); for recorded scans TLC checks that the k-1 tree is exactly the k tree with the deepest search pass removed and that the sequence of searched texts is the machine's.",
    ),
    "C08": dict(
        level="model_checking", ref="5 (C08), 3.1",
        technique="TLC: invariant SubScan at every return of a decoded activation; trace validation: sub-tree of each decoded node vs an independently recorded scan_node(Node(type, value), remaining depth), clause `sub`",
        text="In the model the sub-tree of a decoded node equals RefScan(value, type, depth), an expression mentioning nothing outside the node. For the implementation the harness records an independent scan per decoded node; TLC recomputes which nodes are decoded and the remaining depth and compares the forests.",
    ),
}

CHECKS.update({
    "C17": dict(
        level="model_checking", ref="5 (C17), 3.3",
        technique="TLC: the find loop of find_all as a machine refines the leftmost-non-overlapping delimited-occurrence spec (Keyword.tla) for every (keyword, data) pair over {a,A,b,B,1,-}; KeywordTrace.tla re-derives the hits of real searcher calls (whole universe through a generated keyword directory, random wider alphabets, shipped lists)",
        text="Refinement, the MixedCase truth table and soundness of reported starts are checked exhaustively in the bound (401k pairs quick, 2.4M thorough). The same universe is replayed through registry.get_keywords + find_keywords and each call's hits are compared by TLC with SearcherHits; shipped keyword lists are checked on every text met while scanning.",
    ),
    "C19": dict(
        level="model_checking", ref="5 (C19), 3.2",
        technique="TLC: the code-shaped flatten loop refines the two-phase (choose, then splice) reading of C19 over a bounded tree universe, with corollaries UnchangedId; TreeTrace.tla compares flatten() of real Node trees (universe, random deep trees, scan results) with the spec operator",
        text="Flatten is specified declaratively (greedy choice of substituted children, then splicing) and the loop of node.py is checked against it for every tree of the universe (53k trees quick). Every universe tree is rebuilt from Node objects and flattened by the implementation; so are random trees with overlapping/nested children and the results of real scans; TLC recomputes the expected bytes.",
    ),
    "C20": dict(
        level="model_checking", ref="5 (C20), 3.2",
        technique="TLC: JSON round trip and injectivity theorems over the tree universe (TreeMC); TreeTrace.tla checks tree_to_json / json_to_tree / == / string_summary / squash_replace of real trees and the stdout of CLI sessions against JsonDoc, Summary, Squash, Flatten of the in-process tree",
        text="RoundTrip, Injective, IterOnce, SquashAgrees are model-checked in the bound. For real trees (all byte values, non-ASCII labels, depth 40 chains, scan results) TLC compares the decoded JSON document, the tree decoded back (with parent links), equality against single-field mutants and the summary lines; CLI subprocess sessions (file/stdin, default/--json/--replace, --keywords) are compared with the library's tree for the same bytes.",
        note="CLI sessions are exploration (a few dozen per quick run); " + TRUST,
    ),
})

CHECKS.update({
    "C09": dict(
        level="model_checking", ref="5 (C09), 3.3",
        technique="TLC: Repro.tla (processes x environment orders x instances x thread interleavings; invariant Reproducible; the environment-order variant of the pinned commit must violate it); ReproTrace.tla validates recorded histories (hash seeds, permuted directory enumeration, shared-scanner threads, re-used vs fresh scanners, CLI stdout) with a first-End-binds memo",
        text="The design model is exhaustive for 2 processes, 3 threads, 3 instances, 4 scans (5.4M states). Recorded histories of the real system (6 hash seeds quick / 26 thorough, half with shuffled os.walk, default and a custom keyword directory full of duplicated and case-variant words, 8 threads on one scanner with switch interval 1e-6, a scanner re-used across 150-1500 scans against fresh ones, CLI output per seed) are checked event by event by TLC: enabling conditions and equality of the result digest for equal (configuration, input, depth, view).",
    ),
    "C18": dict(
        level="model_checking", ref="5 (C18), 3.3",
        technique="TLC: RegistryMC.tla - the module loop and the file loop of registry.py refine the selection algebra / one-searcher-per-non-empty-file spec for every include/exclude pair over 3 modules (+ an unknown name), every enumeration order, every pair of small keyword files (LF/CRLF/CR, blanks, duplicates); RegistryTrace.tla re-derives what the real build_registry / get_analyzers / get_keywords returned",
        text="Ground truth for 'marked' is an ast scan of decoders/*.py. TLC recomputes, from the raw bytes of every keyword file (SplitLines is specified in TLA+) and from the include/exclude lists, the exact set of functions and searchers and compares with the registry the implementation built: default registry (also as seen by Multidecoder()), all singleton include/exclude choices, random subsets incl. unknown / partial names and generator arguments, generated directory trees. 31 behavioural probes (one input per shipped decoder function and one keyword list) check through the default scanner that each decoder is really applied (a removed registration mark is caught even though the ast ground truth moves with it).",
    ),
})

_DEC = "TLC evaluates TLA+ relations (NodeRel.tla over Codec.tla / StringOps.tla) on (i) every labelled node of recorded scans and (ii) grid instances whose payload it re-encodes itself"
CHECKS.update({
    "C13": dict(
        level="exploration", ref="5 (C13-C15), 3.5",
        technique="TLA+ oracle: " + _DEC + "; CodecMC.tla checks Decode(Encode(p)) = p for the encoders behind the grids",
        text="Relation direction: every encoding.base64 / decoded.hexadecimal / encoding.hexidecimal / cipher.xor* / cipher.multibyte_xor node met in any scan must satisfy B64Decode(B64Clean(covered)), Unhex, XorKey, RepeatingXor as TLC computes them. Converse direction: payload lengths 0..40 (all paddings), acceptance-rule boundaries (22 characters, 6/7 distinct, all-hex, all-letters, slash ratio), both hex cases incl. digit-only prefixes, the four call forms with both quote styles, xor keys 0..999 in three spellings, byte arrays with repeating keys; TLC decides domain membership with BareB64Accept / HexRun and requires a node of the documented type, label, exact value and exact span.",
        note="regular-expression languages are sampled on boundary grids, not proved; " + TRUST,
    ),
    "C14": dict(
        level="exploration", ref="5 (C13-C15), 3.5",
        technique="TLA+ oracle: " + _DEC + " (XmlRefs, Utf8, PercentDecode, Utf16ToUtf8)",
        text="All 256 byte values as decimal and hexadecimal references, code points at every UTF-8 length boundary and the surrogate gap (0..99999 sampled quick, every 7th + random thorough), percent strings with malformed escapes, UTF-16 runs around the 7-character minimum; plus every unescape.xml / function.chr / function.unescape / codec.uft-16 node met while scanning.",
        note="regular-expression languages are sampled on boundary grids, not proved; " + TRUST,
    ),
    "C15": dict(
        level="exploration", ref="5 (C13-C15), 3.5",
        technique="TLA+ oracle: " + _DEC + " (ParseConcat, ParseCall1, the four replace parsers, BytesReplace)",
        text="Literal chains with every separator spelling (+ & &amp;, whitespace, VB line continuation), both quote styles, empty and bare-operator literals (outside the domain: TLC says n/a), reversal through reverse / reversed / StrReverse in any case, four replace dialects with overlapping and repeated occurrences; TLC parses the covered text with the documented grammar and recomputes the value.",
        note="regular-expression languages are sampled on boundary grids, not proved; " + TRUST,
    ),
    "C16": dict(
        level="model_checking", ref="5 (C16), 3.4, Appendix A.4",
        technique="TLC: strip_carets and the parenthesis scanner as machines (one action per iteration, guarded reads) refine CaretSpec / CmdEnd over every string <= 6/8 over their critical alphabets (the pinned-commit variants must fail: IndexError, runaway end); ShellTrace.tla judges the real strip_carets, find_cmd_strings, find_powershell_strings call by call (CmdNode, PsEnd, EncRewrite)",
        text="Caret removal: 19,531 strings (97,656 thorough) through the machine and through the real function. cmd commands: every string over {( ) x \" sp ^ NUL} behind four prefixes; span, repaired value and label recomputed by TLC. PowerShell: context x token x argument x closer lattice with all 14 prefixes of -encodedcommand in - and / style, quotes and carets; TLC computes the span rule and the -Command rewrite (UTF-16 of the base64 text). The same three functions are judged on every text met while scanning.",
        note="token-locating regular expressions are taken from the module under test (not modelled); one known finding (K06, end = len - start, pinned by a repository test); " + TRUST,
    ),
})

_NET = "TLA+ oracle (NetTrace.tla over Net.tla: CanonicalQuad, DomainShape with the shipped TLD table, EmailShape, UrlShape, NormalizePercent, UrlSplit/AuthSplit, DotSegments, InetAton, WinNorm) evaluated by TLC"
CHECKS.update({
    "C01": dict(
        level="model_checking", ref="5 (C01), 3.1, 3.6",
        technique="TLC: liveness TerminatesDone + NoHang of the engine machine over the world family (and the demonstration that NoHang fails as soon as a hit may end past its text); Session.tla (Call, Return, five Views; no raise / timeout action) validates every recorded session",
        text="Engine termination is model-checked (weak fairness, self-reproducing worlds, K from -1 to 5 across tiers); it reduces to the decoder-side obligation of in-bounds spans, which the out-of-bounds configuration shows to be necessary. On the implementation side ~26k (quick) / ~600k (thorough) sessions - every string over each conversion site's critical alphabet behind its trigger prefixes (shell carets/quotes/line ends/parentheses, XML references, base64/hex malformations, quote soup), xor keys 0..999 in three forms, code points 0..99999, a PE-header grid, byte arrays with periodic xor keys, repository literals under mutation, token soup, binary garbage, depth limits of every sign - run under a process-level watchdog (a regular expression stuck in C code is killed and reported); each session must be a complete behaviour of Session.tla; suspected hangs are re-confirmed alone with 60 s; after 40 sessions that do not return the run stops and reports what it has.",
        note="inputs <= 4 KiB; Python recursion-limit nesting (about 1000 layers) not explored; " + TRUST,
    ),
    "C03": dict(
        level="model_checking", ref="5 (C03), 3.1, 4",
        technique="TLC: invariant WellFormed in every state of every world (Scan.tla); trace validation (ScanTrace.tla) of the observed tree clause by clause: wf.root, wf.link (parent pointers and single ownership by object identity), wf.span, wf.iter (list(root) = pre-order)",
        text="The spec side is exhaustive in the bounded family. Every recorded scan (synthetic worlds and shipped decoders, incl. decoder-built sub-trees: URL parts, path parts, xor children, powershell-in-cmd children) is checked by TLC for root fields, parent links, ownership, in-bounds spans and iteration order. Two known findings (K06b, K08), both pinned by repository tests, are reported as KNOWN-FINDING and matched by producer, node type and rule.",
    ),
    "C10": dict(
        level="exploration", ref="5 (C10), 3.5",
        technique=_NET + " on every network.* node of recorded scans (network token soup, repository literals, URL lattice)",
        text="Output condition monitored on every network.ip / domain / email / url node (with its parent type, to tell free-text indicators from URL / UNC hosts): canonical dotted quad and value = covered text in free text; name + registered TLD, charset and length >= 7 in free text; e-mail shape; scheme and non-empty host; value = NormalizePercent(covered) and the escape.percent label iff shortened.",
        note="registered TLD = the table as shipped at the pinned commit (spec/tlds_pinned.json); regular-expression languages are sampled; " + TRUST,
    ),
    "C11": dict(
        level="exploration", ref="5 (C11), 3.5",
        technique=_NET + " on generated indicator instances embedded between neutral delimiters at rotating offsets; TLC decides domain membership (e.g. CanonicalQuad and not .0/.255/all-zero; FreeDomain; UrlShape) and requires a node of the documented type, canonical value and exact absolute span",
        text="Instances: IPv4 octet boundary values, domains with label lengths 2..63 under registered and unregistered TLDs (7-character minimum), the URL component lattice, e-mail addresses, Windows path lattice (drive / UNC / device prefixes x dot segments x file names), POSIX paths, .exe / .dll names in three cases, CreateObject with nested parentheses, structurally valid PE files with 1..3 sections with leading junk and trailing bytes. 8 prefixes x 6 suffixes rotate over the instances.",
        note="documented false-positive shapes (Net.FalsePositiveDomain, Net.IpContextSuppressed; tables pinned in spec/domain_fpos_pinned.json) are generated on both sides of every rule and decided by TLC; registered TLD = pinned snapshot spec/tlds_pinned.json; regular-expression languages are sampled; " + TRUST,
    ),
    "C12": dict(
        level="model_checking", ref="5 (C12), 3.4",
        technique="TLC: UrlMC.tla - the offset walk of parse_url / parse_authority as a machine vs the span specification over 972 URLs (the pinned-commit variant must fail); NetTrace.tla recomputes the complete child list (type, span, decoded value, label) of every URL node and value / label / type / children of every Windows-path node",
        text="Every URL node met in scans and every point of the component lattice (5 schemes x 8 userinfo forms x 15 hosts incl. inet_aton spellings x 4 ports x dot-segment paths x 4 queries x 4 fragments) is judged: UrlSplit / AuthSplit give the spans, PercentDecode / DotSegments / InetAton (limb arithmetic) the values and labels. Windows paths: ntpath.splitroot and the normpath loop are transcribed (WinNorm); type, dotpath label, host child at 2 / 8 and file-name child are recomputed.",
        note="hosts with residual percent-escapes are outside the judged domain; of an IPv6 host everything but the normalisation of the address itself is judged; " + TRUST,
    ),
})

CHECKS.update({
    "C02": dict(
        level="exploration", ref="5 (C02), 3.6",
        technique="TLA+ oracle (Layers.tla over Codec.tla / StringOps.tla): from a proposed (stack, payload, surroundings) TLC re-encodes the input, decides per layer whether the wrapped text is in the documented domain, and computes the chain of nodes (type, label, exact value, exact span, outermost first), the payload indicators beneath it and the flattened text; the real scan tree and flatten() are judged against them",
        text="28 layer kinds (bare / atob / Base64Decode / FromBase64String base64, base64 broken into lines of 30 / 50 / 76 characters or with line ends written as character references, lower / upper hex, FromHexString, UTF-16, decimal / hexadecimal XML references, two unescape spellings, concatenation, reverse, StrReverse, four replace dialects, caret-escaped cmd, PowerShell byte arrays in decimal / zero-padded / mixed hexadecimal spelling): every single layer x 8 payload classes, every ordered pair, sampled (thorough: all 6,859) triples, random stacks of height 4..7, at 4 offsets with 4 suffixes.",
        note="one spelling per layer kind; containment of the chain, not equality of whole trees; " + TRUST,
    ),
})

NOT_YET = {
    "C01": "check under construction in this session (Session.tla + drivers); not claimed until it runs clean",
    "C02": "check under construction (Layers.tla)",
    "C03": "check under construction (needs the URL child-span finding resolved first)",
    "C09": "check under construction (Repro.tla)",
    "C10": "check under construction (Network.tla)",
    "C11": "check under construction (Network.tla / Carve.tla)",
    "C12": "check under construction (Url.tla)",
    "C13": "check under construction (Codec.tla)",
    "C14": "check under construction (Codec.tla)",
    "C15": "check under construction (StringOps.tla)",
    "C16": "check under construction (Shell.tla)",
    "C17": "check under construction (Keyword.tla)",
    "C18": "check under construction (Registry.tla)",
    "C19": "check under construction (Tree.tla)",
    "C20": "check under construction (Tree.tla / Session.tla)",
}


def build() -> dict:
    checks = []
    for pid in sorted(CHECKS):
        c = CHECKS[pid]
        checks.append({
            "property_id": pid,
            "quick_cmd": f"./check {pid} --tier quick",
            "thorough_cmd": f"./check {pid} --tier thorough",
            "evidence_file": f"/verif/evidence/{pid}.json",
            "replay_cmd_template": f"./check {pid} --replay {{path}}",
            "engine": "tlc",
            "level_claimed": {"category": c["level"], "text": c["text"], "design_ref": "DESIGN.md section " + c["ref"]},
            "level_note": c.get("note", TRUST),
            "technique": c["technique"],
        })
    return {
        "version": 1,
        "setup_cmd": "./setup.sh",
        "hooks": {
            "guard": "MULTIDECODER_VERIF",
            "enable": "no source hooks: observation wraps the public API (registry entries, scan_node) inside the harness process; nothing in /repo is instrumented",
            "baseline_off_cmd": "cd /repo && /venv/bin/python -m pytest -q -p no:cacheprovider",
            "source_commits": [],
            "add_only": True,
        },
        "engines": [
            {"name": "tlc", "path": "/verif/spec", "serves_properties": sorted(CHECKS),
             "kind_free_text": "explicit TLA+ specifications checked with TLC 1.8 (exhaustive + trace validation); Python harness in /verif/harness drives the implementation"}
        ],
        "checks": checks,
        "notes": "Python harness: /verif/check <ID> --tier quick|thorough; VERIF_REPO selects the tree under test (default /repo); VERIF_SEED seeds all random drivers. Exit 2 = machinery failure.",
        "not_applicable": [{"property_id": p, "reason": r} for p, r in sorted(NOT_YET.items()) if p not in CHECKS],
    }


if __name__ == "__main__":
    with open(os.path.join(VERIF, "MANIFEST.json"), "w") as f:
        json.dump(build(), f, indent=1)
    print("MANIFEST.json written:", len(CHECKS), "checks")
