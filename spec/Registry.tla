------------------------------ MODULE Registry ------------------------------
(***************************************************************************)
(* Building the registry (registry.py): which decoder functions and which  *)
(* keyword searchers a configuration yields.  Spec operators are the       *)
(* sentences of C18; RegistryMC.tla adds the code-shaped loops.            *)
(***************************************************************************)
EXTENDS Bytes

None == {"*none*"}      \* stands for Python's None (no include / exclude list given); a set, so that TLC can compare it with lists

\* Marked: function from module name to the set of functions it marks for registration
Selected(modules, inc, exc) == (IF inc = None THEN modules ELSE modules \cap inc) \ (IF exc = None THEN {} ELSE exc)
Analyzers(marked, inc, exc) ==
  { <<m, f>> : m \in Selected(DOMAIN marked, inc, exc), f \in UNION {marked[x] : x \in DOMAIN marked} } \cap
  UNION { { <<m, f>> : f \in marked[m] } : m \in DOMAIN marked }

---------------------------------------------------------------------------
(* keyword files: bytes.splitlines() splits at \n, \r\n and \r; blank lines are ignored; words form a set *)
IsBreak(b) == b = 10 \/ b = 13
SplitLines(raw) ==
  LET n == Len(raw)
      \* a line ends at a break position; "\r\n" is one break (its \n does not end a second, empty line)
      ends == {i \in 1..n : IsBreak(raw[i]) /\ ~(raw[i] = 10 /\ i > 1 /\ raw[i-1] = 13)}
      E == SetToSortSeq(ends, LAMBDA a, b : a < b)
      after(i) == IF raw[i] = 13 /\ i < n /\ raw[i+1] = 10 THEN i + 2 ELSE i + 1     \* first byte of the next line
      start(k) == IF k = 1 THEN 1 ELSE after(E[k-1])
      last == start(Len(E) + 1)
  IN { SubSeq(raw, start(k), E[k] - 1) : k \in 1..Len(E) } \cup (IF last <= n THEN {SubSeq(raw, last, n)} ELSE {})
Words(raw) == SplitLines(raw) \ {<<>>}
\* one searcher per file with at least one word, labelled by the file's name, sub-directories included
Searchers(files) == { [label |-> f.name, words |-> Words(f.raw)] : f \in {g \in files : Words(g.raw) # {}} }
=============================================================================
