CONSTANTS
 Alphabet = {40, 41, 120}
 MaxLen = 6
 Which = "paren"
 Variant = "asis"
SPECIFICATION Spec
INVARIANT NoIndexError
INVARIANT CaretRefines
INVARIANT ParenRefines
INVARIANT CaretShrinks
PROPERTY Terminates
CHECK_DEADLOCK FALSE
