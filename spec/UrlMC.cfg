CONSTANTS
 Variant = "fixed"
 TLDs = {}
SPECIFICATION Spec
INVARIANT SpansAgree
INVARIANT SelectsText
PROPERTY Terminates
CHECK_DEADLOCK FALSE
