----------------------------- MODULE ScanTrace -----------------------------
(***************************************************************************)
(* Trace validation for Scan.tla.  One line of the trace file = one scan   *)
(* of the real implementation: the world it saw (every registry answer,    *)
(* snapshotted when the decoder returned) and what it produced (the tree,  *)
(* walked through children lists, with parent pointers reported by object  *)
(* identity).  The machine of Scan.tla is run on that world -- the same    *)
(* Next that ScanMC model-checks -- and Judge compares.  The properties    *)
(* C03, C04, C05, C07, C08 are in addition evaluated on the *observed*     *)
(* tree, from the recorded hits only, so that each property gets its own   *)
(* verdict even when the tree is not the one the machine builds.           *)
(* Nothing here is inferred: dec / restate / shadow / parent are all       *)
(* recomputed from the raw snapshot.                                       *)
(***************************************************************************)
EXTENDS Scan, Json, IOUtils

Traces == ndJsonDeserialize(IOEnv.TRACE_FILE)
TraceK(w)       == Traces[w].k
TraceTexts(w)   == Traces[w].texts
TraceHits(w, t) == Traces[w].hits[t]
TraceN == Len(Traces)

T == Traces[wid]
O == T.tree                      \* observed tree, pre-order, O[1] = root
                                 \* node: [p, pp, dup, s, e, ty, obf, val, by, src]

---------------------------------------------------------------------------
(* the machine's tree in the observation's shape *)
MachineSeq ==
  LET order == <<1>> \o PreOrder(1)
      pos(id) == CHOOSE i \in 1..Len(order) : order[i] = id
  IN [i \in 1..Len(order) |->
        LET n == nodes[order[i]] IN
        [p |-> IF n.parent = 0 THEN 0 ELSE pos(n.parent), s |-> n.s, e |-> n.e,
         ty |-> n.ty, obf |-> n.obf, val |-> n.val]]
Core(o) == [i \in 1..Len(o) |-> [p |-> o[i].p, s |-> o[i].s, e |-> o[i].e,
                                 ty |-> o[i].ty, obf |-> o[i].obf, val |-> o[i].val]]

---------------------------------------------------------------------------
(* properties on the observed tree *)
ObsHit(i) == HitsOf(O[i].src[1])[O[i].src[2]]
Engine(i) == O[i].by = "engine"
ObsDec(i) == Engine(i) /\ Dec(O[i].src[1], ObsHit(i))
ObsCtx(i) == Engine(i) /\ ~Dec(O[i].src[1], ObsHit(i))

\* C03, clause by clause
ObsRoot == /\ Len(O) >= 1
           /\ O[1].p = 0 /\ O[1].pp = 0 /\ O[1].ty = "" /\ O[1].obf = "" /\ O[1].val = 1
           /\ O[1].s = 0 /\ O[1].e = TextLen(1)
ObsLinks == \A i \in 2..Len(O) :
              /\ O[i].p >= 1 /\ O[i].p < i
              /\ O[i].pp = O[i].p           \* the parent pointer names the node whose child list holds it
              /\ ~O[i].dup                  \* ... and it is held exactly once
ObsSpans == \A i \in 2..Len(O) : 0 <= O[i].s /\ O[i].s <= O[i].e /\ O[i].e <= TextLen(O[O[i].p].val)
ObsIter  == T.iter = [i \in 1..(Len(O) - 1) |-> i + 1]      \* list(root): every node once, pre-order

\* C04: the frame base of an engine-attached node = nearest ancestor that is not a context of the same text
RECURSIVE ObsBase(_, _)
ObsBase(a, t) == IF a >= 1 /\ ObsCtx(a) /\ O[a].src[1] = t THEN ObsBase(O[a].p, t) ELSE a
RECURSIVE ObsSum(_, _)
ObsSum(i, base) == IF i = base \/ i < 1 THEN 0 ELSE O[i].s + ObsSum(O[i].p, base)
InScope(i) == LET h == ObsHit(i) IN 0 <= h.s /\ h.s <= h.e /\ h.e <= TextLen(O[i].src[1])
ObsAbsPos == \A i \in 2..Len(O) : (Engine(i) /\ InScope(i)) =>
   LET h == ObsHit(i)  t == O[i].src[1]  base == ObsBase(O[i].p, t) IN
   /\ base >= 1 /\ O[base].val = t
   /\ ObsSum(i, base) = h.s
   /\ O[i].e - O[i].s = h.e - h.s
   /\ O[i].ty = h.ty /\ O[i].obf = h.obf /\ O[i].val = h.val
   /\ Lower(PySlice(TextB(O[O[i].p].val), O[i].s, O[i].e)) = Lower(PySlice(TextB(t), h.s, h.e))

\* C05
ObsKids(p) == SelectSeq([i \in 1..Len(O) |-> i], LAMBDA i : O[i].p = p /\ Engine(i))
ObsLaminar == \A p \in 1..Len(O) :
   LET ch == ObsKids(p) IN
   \A k \in 1..(Len(ch) - 1) : O[ch[k]].s <= O[ch[k+1]].s /\ O[ch[k]].e < O[ch[k+1]].e
ObsNoDouble == \A a, b \in 2..Len(O) :
   (/\ a < b /\ ObsDec(a) /\ Engine(b) /\ O[a].src[1] = O[b].src[1]
    /\ ObsBase(O[a].p, O[a].src[1]) = ObsBase(O[b].p, O[b].src[1]))
   => ~(ObsHit(a).s <= ObsHit(b).s /\ ObsHit(b).e <= ObsHit(a).e)

\* C07
RECURSIVE ObsSteps(_)
ObsSteps(i) == IF i <= 1 THEN 0 ELSE ObsSteps(O[i].p) + (IF ObsCtx(i) THEN 0 ELSE 1)
ObsDepth ==
  /\ (K <= 0 => Len(O) = 1)
  /\ \A i \in 2..Len(O) : Engine(i) => ObsSteps(ObsBase(O[i].p, O[i].src[1])) < K
\* the tree for K-1 is the observed tree for K with the search pass at level K-1 removed.  Levels are
\* computed on the observed tree itself (not through the reference, which only speaks for worlds inside
\* the engine's precondition): an engine-attached node has the level of the pass that found it, a
\* decoder-supplied node the level of the hit it came with.
RECURSIVE ObsLvl(_)
ObsLvl(i) == IF i <= 1 THEN 0
             ELSE IF Engine(i) THEN ObsSteps(ObsBase(O[i].p, O[i].src[1]))
             ELSE ObsLvl(O[i].p)
ObsPrefix == T.hasLo =>
  LET kept == {i \in 1..Len(O) : i = 1 \/ ObsLvl(i) < K - 1}
      idx  == SetToSortSeq(kept, LAMBDA a, b : a < b)
      rank(i) == Cardinality({j \in kept : j <= i})
  IN Core(T.lo) = [k \in 1..Len(idx) |->
                     LET n == O[idx[k]] IN [p |-> IF n.p = 0 THEN 0 ELSE rank(n.p), s |-> n.s, e |-> n.e,
                                            ty |-> n.ty, obf |-> n.obf, val |-> n.val]]

\* C08: the sub-tree of a decoded node vs an independent scan of (type, value, remaining depth)
RECURSIVE IsUnder(_, _)
IsUnder(i, a) == i = a \/ (i > a /\ IsUnder(O[i].p, a))
SubSeqOf(a) == LET idx == SelectSeq([i \in 1..Len(O) |-> i], LAMBDA i : i > a /\ IsUnder(i, a))
               IN [k \in 1..Len(idx) |->
                     LET n == O[idx[k]] IN [p |-> n.p - a + 1, s |-> n.s, e |-> n.e, ty |-> n.ty, obf |-> n.obf, val |-> n.val]]
ObsSub == \A x \in 1..Len(T.subs) :
   LET sb == T.subs[x]  a == sb.pos IN
   /\ ObsDec(a)
   /\ sb.d = K - ObsSteps(a)
   /\ SubSeqOf(a) = [k \in 1..(Len(sb.tree) - 1) |-> Core(sb.tree)[k + 1]]

---------------------------------------------------------------------------
Clauses ==
  IF T.outcome = "nondet" THEN
     \* a text searched twice gave different hits: there is no world (a registry is a function of the text) for the machine to
     \* run in, but what C03 / C04 / C05 say about the tree that was returned can be read off the raw observation alone
     {"ret"}
     \cup (IF ObsRoot  THEN {} ELSE {"wf.root"})
     \cup (IF ObsLinks THEN {} ELSE {"wf.link"})
     \cup (IF ObsSpans THEN {} ELSE {"wf.span"})
     \cup (IF ObsIter  THEN {} ELSE {"wf.iter"})
     \cup (IF ObsAbsPos THEN {} ELSE {"abs"})
     \cup (IF ObsLaminar THEN {} ELSE {"lam"})
     \cup (IF ObsNoDouble THEN {} ELSE {"dbl"})
  ELSE IF T.outcome # "ok" THEN
     \* the machine says what should have happened; an exception is never a behaviour,
     \* a hang is one only when the recorded hits leave the engine no way out
     IF T.outcome = "hang" /\ verdict = "hang" THEN {"pre"} ELSE {"ret"}
  ELSE
     (IF Precondition THEN {} ELSE {"pre"})
     \cup (IF verdict = "done" /\ MachineSeq = Core(O) THEN {} ELSE {"tree"})
     \cup (IF [i \in 1..Len(log.collects) |-> log.collects[i].t] = T.searched THEN {} ELSE {"searched"})
     \cup (IF verdict = "done" /\ Build(1) = RefTree(K) THEN {} ELSE {"ref"})
     \cup (IF ObsRoot  THEN {} ELSE {"wf.root"})
     \cup (IF ObsLinks THEN {} ELSE {"wf.link"})
     \cup (IF ObsSpans THEN {} ELSE {"wf.span"})
     \cup (IF ObsIter  THEN {} ELSE {"wf.iter"})
     \cup (IF ObsAbsPos THEN {} ELSE {"abs"})
     \cup (IF ObsLaminar THEN {} ELSE {"lam"})
     \cup (IF ObsNoDouble THEN {} ELSE {"dbl"})
     \cup (IF ObsDepth THEN {} ELSE {"depth"})
     \cup (IF ObsPrefix THEN {} ELSE {"prefix"})
     \cup (IF ObsSub THEN {} ELSE {"sub"})

Judge ==
  /\ verdict \in {"done", "hang"}
  /\ LET cl == Clauses IN
     /\ \A c \in cl : PrintT(<<"V", wid, c>>)
     /\ PrintT(<<"V", wid, IF cl = {} THEN "ACCEPT" ELSE "REJECT">>)
  /\ verdict' = "judged"
  /\ UNCHANGED <<wid, st, nodes, log>>

TraceNext == Next \/ Judge
TraceSpec == Init /\ [][TraceNext]_vars
=============================================================================
