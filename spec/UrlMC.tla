-------------------------------- MODULE UrlMC --------------------------------
(***************************************************************************)
(* The offset bookkeeping of network.parse_url / parse_authority as a      *)
(* machine (one action per component, one integer of state `offset`),      *)
(* checked against the span specification of Net.tla (UrlSplit/AuthSplit)  *)
(* over a lattice of URLs: userinfo in {none, u@, u:@, u:p@, :p@, @},      *)
(* port {none, ":", ":80"}, path, query {none, "?", "?q"}, fragment        *)
(* {none, "#", "#f"}.  Variant "asis" is the pinned commit (forgets the    *)
(* ':' of an empty password, the '@' of an empty userinfo and the '?' of   *)
(* an empty query): it must violate SpansAgree.                            *)
(***************************************************************************)
EXTENDS Net
CONSTANT Variant

S(str) == CASE str = "u" -> <<117>> [] str = "p" -> <<112>> [] str = "h" -> <<104, 46, 99, 111>> [] OTHER -> <<>>
Users == {"none", "u@", "u:@", "u:p@", ":p@", "@"}
UserText(u) == CASE u = "none" -> <<>> [] u = "u@" -> <<117, 64>> [] u = "u:@" -> <<117, 58, 64>> [] u = "u:p@" -> <<117, 58, 112, 64>>
                 [] u = ":p@" -> <<58, 112, 64>> [] u = "@" -> <<64>>
Ports == {<<>>, <<58>>, <<58, 56, 48>>}
Paths == {<<>>, <<47>>, <<47, 97>>}
Queries == {<<>>, <<63>>, <<63, 113>>}
Frags == {<<>>, <<35>>, <<35, 102>>}
Schemes == {<<104, 116, 116, 112>>, <<102, 116, 112>>}

VARIABLES url, comp, offset, spans, pc
vars == <<url, comp, offset, spans, pc>>
\* comp: the components the URL was built from (what urlsplit hands to the code)
Init == \E sc \in Schemes, u \in Users, po \in Ports, pa \in Paths, q \in Queries, f \in Frags :
          /\ comp = [scheme |-> sc, user |-> u, port |-> po, path |-> pa, query |-> q, frag |-> f]
          /\ url = sc \o <<58, 47, 47>> \o UserText(u) \o S("h") \o po \o pa \o q \o f
          /\ offset = 0 /\ spans = [x \in {} |-> <<0, 0>>] /\ pc = "scheme"
Set(name, a, b) == [x \in DOMAIN spans \cup {name} |-> IF x = name THEN <<a, b>> ELSE spans[x]]
Netloc == UserText(comp.user) \o S("h") \o comp.port
UserName == IF comp.user \in {"u@", "u:@", "u:p@"} THEN <<117>> ELSE <<>>
Password == IF comp.user \in {"u:p@", ":p@"} THEN <<112>> ELSE <<>>
UserInfo == IF comp.user = "none" THEN <<>> ELSE SubSeq(UserText(comp.user), 1, Len(UserText(comp.user)) - 1)

Scheme == /\ pc = "scheme"                                   \* network.py: scheme child, offset += len(scheme) + 1
          /\ spans' = Set("scheme", 0, Len(comp.scheme)) /\ offset' = Len(comp.scheme) + 1 + 2     \* ... + "//"
          /\ pc' = "user" /\ UNCHANGED <<url, comp>>
User ==   /\ pc = "user"
          /\ IF UserName # <<>> THEN spans' = Set("user", offset, offset + Len(UserName)) /\ offset' = offset + Len(UserName)
             ELSE UNCHANGED <<spans, offset>>
          /\ pc' = "pass" /\ UNCHANGED <<url, comp>>
Pass ==   /\ pc = "pass"
          /\ LET colon == IF Variant = "asis" THEN Password # <<>> ELSE \E i \in 1..Len(UserInfo) : UserInfo[i] = 58
                 o1 == IF colon THEN offset + 1 ELSE offset
             IN IF Password # <<>> THEN spans' = Set("pass", o1, o1 + Len(Password)) /\ offset' = o1 + Len(Password)
                ELSE spans' = spans /\ offset' = o1
          /\ pc' = "host" /\ UNCHANGED <<url, comp>>
Host ==   /\ pc = "host"
          /\ LET at == IF Variant = "asis" THEN UserInfo # <<>> ELSE comp.user # "none"
                 o1 == IF at THEN offset + 1 ELSE offset
             IN spans' = Set("host", o1, o1 + Len(S("h")))
          /\ offset' = Len(comp.scheme) + 3 + Len(Netloc)           \* parse_url: offset += len(netloc)
          /\ pc' = "path" /\ UNCHANGED <<url, comp>>
Path ==   /\ pc = "path"
          /\ IF comp.path # <<>> THEN spans' = Set("path", offset, offset + Len(comp.path)) /\ offset' = offset + Len(comp.path)
             ELSE UNCHANGED <<spans, offset>>
          /\ pc' = "query" /\ UNCHANGED <<url, comp>>
Query ==  /\ pc = "query"
          /\ LET q == SubSeq(comp.query, 2, Len(comp.query))
                 mark == IF Variant = "asis" THEN q # <<>> ELSE comp.query # <<>>
                 o1 == IF mark THEN offset + 1 ELSE offset
             IN IF q # <<>> THEN spans' = Set("query", o1, o1 + Len(q)) /\ offset' = o1 + Len(q)
                ELSE spans' = spans /\ offset' = o1
          /\ pc' = "frag" /\ UNCHANGED <<url, comp>>
Frag ==   /\ pc = "frag"
          /\ LET f == SubSeq(comp.frag, 2, Len(comp.frag))
                 o1 == IF (IF Variant = "asis" THEN f # <<>> ELSE comp.frag # <<>>) THEN offset + 1 ELSE offset
             IN IF f # <<>> THEN spans' = Set("frag", o1, o1 + Len(f)) ELSE spans' = spans
          /\ pc' = "done" /\ UNCHANGED <<url, comp, offset>>
Next == Scheme \/ User \/ Pass \/ Host \/ Path \/ Query \/ Frag
Spec == Init /\ [][Next]_vars /\ WF_vars(Next)

\* every reported span selects the text of its component inside the URL (C12)
SpansAgree == pc = "done" =>
  LET sp == UrlSplit(url)  au == AuthSplit(url, sp.auth)
      want == [scheme |-> sp.scheme, user |-> au.user, pass |-> au.pass, host |-> au.host, path |-> sp.path, query |-> sp.query, frag |-> sp.frag]
  IN \A x \in DOMAIN spans : spans[x] = want[x]
SelectsText == pc = "done" =>
  /\ ("user" \in DOMAIN spans => Sl(url, spans["user"]) = UserName)
  /\ ("pass" \in DOMAIN spans => Sl(url, spans["pass"]) = Password)
  /\ Sl(url, spans["host"]) = S("h")
  /\ ("query" \in DOMAIN spans => Sl(url, spans["query"]) = SubSeq(comp.query, 2, Len(comp.query)))
  /\ ("frag" \in DOMAIN spans => Sl(url, spans["frag"]) = SubSeq(comp.frag, 2, Len(comp.frag)))
Terminates == <>(pc = "done")
=============================================================================
