--------------------------------- MODULE Net ---------------------------------
(***************************************************************************)
(* Network indicators (decoders/network.py, path.py): the shape predicates *)
(* of C10, the component structure of URLs and Windows paths of C12.       *)
(* Everything is an operator over byte strings; the registered top-level   *)
(* domains come from the table shipped in domains.py (trusted), handed in  *)
(* as a constant.                                                          *)
(***************************************************************************)
EXTENDS Codec

CONSTANT TLDs            \* set of upper-case byte strings

DOT == 46  COLON == 58  SLASH == 47  QM == 63  HASH == 35  ATSIGN == 64  PCT == 37  BSL == 92  LBR == 91  RBR == 93

---------------------------------------------------------------------------
(* C10: canonical dotted quad: four decimal parts 0..255 without leading zeros *)
CanonPart(p) == AllDigits(p) /\ Len(p) <= 3 /\ DecVal(p) <= 255 /\ (Len(p) = 1 \/ p[1] # 48)
CanonicalQuad(v) == LET ps == SplitAt(v, DOT) IN Len(ps) = 4 /\ \A i \in 1..4 : CanonPart(ps[i])
QuadOf(b) == DecStr(b[1]) \o <<DOT>> \o DecStr(b[2]) \o <<DOT>> \o DecStr(b[3]) \o <<DOT>> \o DecStr(b[4])

\* a name, a dot and a registered top-level domain
LastDot(v) == LET ds == {i \in 1..Len(v) : v[i] = DOT} IN IF ds = {} THEN 0 ELSE CHOOSE i \in ds : \A j \in ds : i >= j
DomainShape(v) == LET d == LastDot(v) IN d > 1 /\ d < Len(v) /\ Tup(Upper(SubSeq(v, d + 1, Len(v)))) \in TLDs
\* ... found in free text: letters, digits, hyphens and dots only, at least seven characters
FreeDomain(v) == DomainShape(v) /\ Len(v) >= 7 /\ \A i \in 1..Len(v) : IsAlnumB(v[i]) \/ v[i] = 45 \/ v[i] = DOT
EmailShape(v) == LET ats == {i \in 1..Len(v) : v[i] = ATSIGN} IN
                 /\ Cardinality(ats) >= 1
                 /\ LET a == CHOOSE i \in ats : \A j \in ats : i >= j IN a > 1 /\ DomainShape(SubSeq(v, a + 1, Len(v)))

\* value = covered text with percent-escapes of unreserved characters decoded and all other escapes upper-cased
Unreserved(b) == IsAlnumB(b) \/ b = 45 \/ b = DOT \/ b = 95 \/ b = 126
NormalizePercent(s) ==
  LET n == Len(s)
      esc == {i \in 1..n : s[i] = PCT /\ i + 2 <= n /\ IsHexDigit(s[i+1]) /\ IsHexDigit(s[i+2])}
      byteAt(i) == 16 * HexNib(s[i+1]) + HexNib(s[i+2])
      dropped == UNION {{i + 1, i + 2} : i \in {x \in esc : Unreserved(byteAt(x))}}
      keep == SelectSeq([i \in 1..n |-> i], LAMBDA i : i \notin dropped)
      inUpper == UNION {{i + 1, i + 2} : i \in esc}
  IN [k \in 1..Len(keep) |-> LET i == keep[k] IN
        IF i \in esc /\ Unreserved(byteAt(i)) THEN byteAt(i)
        ELSE IF i \in inUpper THEN UpperB(s[i]) ELSE s[i]]

---------------------------------------------------------------------------
(* C12: splitting a URL (RFC 3986 appendix B, as urllib.parse.urlsplit does for a URL with an authority) *)
FirstOf(s, from, cs) == LET hits == {i \in from..Len(s) : s[i] \in cs} IN
                        IF hits = {} THEN Len(s) + 1 ELSE CHOOSE i \in hits : \A j \in hits : i <= j
UrlSplit(v) ==      \* components as [a, b) 0-based spans of v; has* tell whether the delimiter is present
  LET c == FirstOf(v, 1, {COLON})                             \* scheme ends
      hasAuth == c + 2 <= Len(v) /\ v[c+1] = SLASH /\ v[c+2] = SLASH
      a0 == IF hasAuth THEN c + 3 ELSE c + 1                   \* first byte of the authority (1-based)
      a1 == IF hasAuth THEN FirstOf(v, a0, {SLASH, QM, HASH}) ELSE a0
      p1 == FirstOf(v, a1, {QM, HASH})
      hasQ == p1 <= Len(v) /\ v[p1] = QM
      q1 == IF hasQ THEN FirstOf(v, p1 + 1, {HASH}) ELSE p1
      hasF == q1 <= Len(v) /\ v[q1] = HASH
  IN [scheme |-> <<0, c - 1>>, auth |-> <<a0 - 1, a1 - 1>>, path |-> <<a1 - 1, p1 - 1>>,
      query |-> IF hasQ THEN <<p1, q1 - 1>> ELSE <<q1 - 1, q1 - 1>>,
      frag |-> IF hasF THEN <<q1, Len(v)>> ELSE <<Len(v), Len(v)>>]
Sl(v, sp) == SubSeq(v, sp[1] + 1, sp[2])

\* authority = [userinfo "@"] host [":" port] ; userinfo = user [":" password]
AuthSplit(v, sp) ==
  LET a == Sl(v, sp)  off == sp[1]
      ats == {i \in 1..Len(a) : a[i] = ATSIGN}
      at == IF ats = {} THEN 0 ELSE CHOOSE i \in ats : \A j \in ats : i >= j           \* last @
      ui == SubSeq(a, 1, at - 1)
      cs == {i \in 1..Len(ui) : ui[i] = COLON}
      c == IF cs = {} THEN 0 ELSE CHOOSE i \in cs : \A j \in cs : i <= j               \* first : of the userinfo
      hp == SubSeq(a, at + 1, Len(a))
      pcs == {i \in 1..Len(hp) : hp[i] = COLON /\ \A j \in (i+1)..Len(hp) : IsDigitB(hp[j])}
      pc == IF pcs = {} THEN 0 ELSE CHOOSE i \in pcs : \A j \in pcs : i >= j           \* last : followed by digits only
      hostEnd == IF pc = 0 THEN Len(hp) ELSE pc - 1
  IN [user |-> IF at = 0 THEN <<off, off>> ELSE IF c = 0 THEN <<off, off + at - 1>> ELSE <<off, off + c - 1>>,
      pass |-> IF at = 0 \/ c = 0 THEN <<off, off>> ELSE <<off + c, off + at - 1>>,
      host |-> <<off + at, off + at + hostEnd>>]

\* dot segments: '.' dropped, '..' cancels the nearest remaining segment before it but never the root
DotSegments(path) ==
  LET segs == SplitAt(path, SLASH)
      dec == [i \in 1..Len(segs) |-> LET u == PercentDecode(segs[i]) IN
                Concat([k \in 1..Len(u) |-> IF u[k] = SLASH THEN <<PCT, 50, 70>> ELSE <<u[k]>>])]      \* %2F stays
      RECURSIVE Go(_, _)
      Go(i, acc) == IF i > Len(dec) THEN acc
                    ELSE IF dec[i] = <<DOT>> THEN Go(i + 1, acc)
                    ELSE IF dec[i] = <<DOT, DOT>> THEN
                         (IF Len(acc) > 1 \/ (Len(acc) = 1 /\ acc[1] # <<>>) THEN Go(i + 1, SubSeq(acc, 1, Len(acc) - 1)) ELSE Go(i + 1, acc))
                    ELSE Go(i + 1, Append(acc, dec[i]))
      kept == Go(1, <<>>)
      RECURSIVE J(_)
      J(q) == IF q = <<>> THEN <<>> ELSE IF Len(q) = 1 THEN q[1] ELSE q[1] \o <<SLASH>> \o J(Tail(q))
  IN [val |-> IF kept = << <<>> >> THEN <<SLASH>> ELSE J(kept),
      removed |-> Len(kept) < Len(segs) \/ kept = << <<>> >>]

---------------------------------------------------------------------------
(* inet_aton: 1..4 parts, each decimal, octal (leading 0) or hexadecimal (0x); the last part fills the
   remaining bytes.  Numbers are kept as base-256 limbs (TLC integers are 32 bit). *)
MulAdd(limbs, base, d) ==       \* limbs (big-endian, fixed width 4) * base + d ; <<-1>> on overflow past 4 bytes
  LET RECURSIVE Go(_, _, _)
      Go(i, carry, acc) == IF i = 0 THEN (IF carry > 0 THEN <<-1>> ELSE acc)
                           ELSE LET t == limbs[i] * base + carry IN Go(i - 1, t \div 256, <<t % 256>> \o acc)
  IN IF limbs = <<-1>> THEN limbs ELSE Go(4, d, <<>>)
NumLimbs(txt) ==                \* the value of one inet_aton part, or <<-1>>
  LET isHex == Len(txt) >= 2 /\ txt[1] = 48 /\ (txt[2] = 120 \/ txt[2] = 88)
      isOct == ~isHex /\ Len(txt) >= 2 /\ txt[1] = 48
      digs == IF isHex THEN SubSeq(txt, 3, Len(txt)) ELSE txt
      base == IF isHex THEN 16 ELSE IF isOct THEN 8 ELSE 10
      ok == digs # <<>> /\ \A i \in 1..Len(digs) : IF base = 16 THEN IsHexDigit(digs[i])
                                                    ELSE IsDigitB(digs[i]) /\ (base = 10 \/ digs[i] < 56)
      RECURSIVE Acc(_, _)
      Acc(i, limbs) == IF i > Len(digs) THEN limbs ELSE Acc(i + 1, MulAdd(limbs, base, HexNib(digs[i])))
  IN IF ~ok \/ txt = <<>> THEN <<-1>> ELSE Acc(1, <<0, 0, 0, 0>>)
InetAton(host) ==               \* 4 bytes, or <<-1>> when the text is not an address
  LET ps == SplitAt(host, DOT)  n == Len(ps)
      ls == [i \in 1..n |-> NumLimbs(ps[i])]
      small(i) == ls[i] # <<-1>> /\ ls[i][1] = 0 /\ ls[i][2] = 0 /\ ls[i][3] = 0
      last == ls[n]
      fits == last # <<-1>> /\ \A k \in 1..(n - 1) : last[k] = 0           \* the last part may use 5 - n bytes
  IN IF n < 1 \/ n > 4 \/ ~(\A i \in 1..(n - 1) : small(i)) \/ ~fits THEN <<-1>>
     ELSE [k \in 1..4 |-> IF k < n THEN ls[k][4] ELSE last[k]]

---------------------------------------------------------------------------
(* Windows paths: ntpath.splitroot + the normpath loop *)
Up8(s) == Tup(Upper(SubSeq(s, 1, 8)))
UNCPFX == <<BSL, BSL, QM, BSL, 85, 78, 67, BSL>>           \* \\?\UNC\
WinRoot(p) ==                   \* [drive, root] as lengths: the drive is p[1..drive], the root p[drive+1..drive+root]
  LET n == Len(p)
      findSep(from) == FirstOf(p, from, {BSL})               \* 1-based index or n + 1
  IN IF n >= 1 /\ p[1] = BSL THEN
        IF n >= 2 /\ p[2] = BSL THEN
           LET start == IF n >= 8 /\ Up8(p) = UNCPFX THEN 9 ELSE 3
               i1 == findSep(start)
               i2 == findSep(i1 + 1)
           IN IF i1 > n \/ i2 > n THEN [drive |-> n, root |-> 0] ELSE [drive |-> i2 - 1, root |-> 1]
        ELSE [drive |-> 0, root |-> 1]
     ELSE IF n >= 2 /\ p[2] = COLON THEN (IF n >= 3 /\ p[3] = BSL THEN [drive |-> 2, root |-> 1] ELSE [drive |-> 2, root |-> 0])
     ELSE [drive |-> 0, root |-> 0]
WinNorm(p) ==
  LET r == WinRoot(p)
      prefix == SubSeq(p, 1, r.drive + r.root)
      comps == SplitAt(SubSeq(p, r.drive + r.root + 1, Len(p)), BSL)
      RECURSIVE Go(_, _)
      Go(i, acc) ==            \* acc = components kept so far (the loop deletes in place; this is the same left fold)
        IF i > Len(comps) THEN acc
        ELSE LET c == comps[i] IN
             IF c = <<>> \/ c = <<DOT>> THEN Go(i + 1, acc)
             ELSE IF c = <<DOT, DOT>> THEN
                  IF acc # <<>> /\ acc[Len(acc)] # <<DOT, DOT>> THEN Go(i + 1, SubSeq(acc, 1, Len(acc) - 1))
                  ELSE IF acc = <<>> /\ r.root = 1 THEN Go(i + 1, acc)
                  ELSE Go(i + 1, Append(acc, c))
             ELSE Go(i + 1, Append(acc, c))
      kept == Go(1, <<>>)
      RECURSIVE J(_)
      J(q) == IF q = <<>> THEN <<>> ELSE IF Len(q) = 1 THEN q[1] ELSE q[1] \o <<BSL>> \o J(Tail(q))
  IN IF prefix = <<>> /\ kept = <<>> THEN <<DOT>> ELSE prefix \o J(kept)

---------------------------------------------------------------------------
(* network.domain_is_false_positive, rule for rule (C11: "outside the documented false-positive shapes").  rootF / tldF are
   the two tables of variable-name roots and endings (lower-case byte strings; pinned snapshot in domain_fpos_pinned.json). *)
ITERATOR  == <<105, 116, 101, 114, 97, 116, 111, 114>>
NEXT_     == <<110, 101, 120, 116>>
THISDOT   == <<116, 104, 105, 115, 46>>
PROTOTYPE == <<112, 114, 111, 116, 111, 116, 121, 112, 101>>
\* re.match(b"[a-z]+[.][A-Z][a-z]+", d): a prefix of d (not all of it) is lower-case letters, a dot, one upper-case letter, lower-case letters
AttributeAccess(d) ==
  LET n == Len(d)
      run == {k \in 1..n : \A i \in 1..k : IsLowerB(d[i])}          \* lengths of all-lower-case prefixes
  IN \E k \in run : k + 3 <= n /\ d[k+1] = DOT /\ IsUpperB(d[k+2]) /\ IsLowerB(d[k+3])
FalsePositiveDomain(d, rootF, tldF) ==
  LET low == Tup(Lower(d))
      labels == SplitAt(low, DOT)
      root == labels[1]
      tld == labels[Len(labels)]
  IN \/ Len(labels) < 2
     \/ (tld = NEXT_ /\ Find(low, ITERATOR, 0) >= 0)
     \/ AttributeAccess(d)
     \/ (tld \in tldF /\ (root \in rootF \/ Len(root) = 1))
     \/ (Len(low) >= 5 /\ SubSeq(low, 1, 5) = THISDOT)
     \/ (Len(labels) = 3 /\ labels[2] = PROTOTYPE /\ Len(root) < 3 /\ Len(tld) < 3)
     \* (a seventh rule in the code - names starting with "lib" under ".so" - compares bytes with a str and can never fire: as coded, absent)

---------------------------------------------------------------------------
(* network.find_ips: the documented contexts in which a dotted quad is a section or version number, not an address.
   pre = the text before the quad.  Python's bytes classes: \s = blank \t \n \v \f \r, \w = letters, digits, underscore. *)
IsSpaceB(b) == b = 32 \/ (b >= 9 /\ b <= 13)
IsWordB(b) == IsAlnumB(b) \/ b = 95
TrimRightSpace(s) == LET keep == {i \in 1..Len(s) : ~IsSpaceB(s[i])} IN
                     IF keep = {} THEN <<>> ELSE SubSeq(s, 1, CHOOSE i \in keep : \A j \in keep : i >= j)
EndsWithS(s, suf) == Len(s) >= Len(suf) /\ SubSeq(s, Len(s) - Len(suf) + 1, Len(s)) = suf
\* "<t>" or "<ns:t>" (word characters before the colon), then white space
XmlTextRun(pre) ==
  LET p == TrimRightSpace(pre)  n == Len(p) IN
  /\ n >= 3 /\ p[n] = 62 /\ p[n-1] = 116                                   \* ... t>
  /\ \/ p[n-2] = 60                                                          \* <t>
     \/ /\ p[n-2] = 58                                                       \* :t>
        /\ \E k \in 1..(n - 3) : /\ p[k] = 60
                                 /\ k + 1 <= n - 3
                                 /\ \A i \in (k + 1)..(n - 3) : IsWordB(p[i])  \* <word:t>
\* "section" or "sec." (any letter case), then at least one white-space character
SectionNumber(pre) ==
  LET p == TrimRightSpace(pre)  low == Tup(Lower(p)) IN
  /\ Len(p) < Len(pre)
  /\ (EndsWithS(low, <<115, 101, 99, 116, 105, 111, 110>>) \/ EndsWithS(low, <<115, 101, 99, 46>>))
\* "ersion" starting within the ten bytes before the quad, with nothing but NUL = white space " between it and the quad
VersionNumber(pre) ==
  LET n == Len(pre)
      ERSION == <<101, 114, 115, 105, 111, 110>>
      cands == {k \in (IF n > 10 THEN n - 10 ELSE 0)..(n - 6) : k >= 0 /\ SubSeq(pre, k + 1, k + 6) = ERSION}       \* 0-based starts
  IN /\ cands # {}
     /\ LET k == CHOOSE x \in cands : \A y \in cands : x >= y            \* bytes.rfind
        IN k + 6 < n /\ \A i \in (k + 7)..n : pre[i] \in {0, 61, 34} \/ IsSpaceB(pre[i])
IpContextSuppressed(pre) == XmlTextRun(pre) \/ SectionNumber(pre) \/ VersionNumber(pre)
\* the address expression's left boundary: not directly behind a word character, a dot or a hyphen
IpLeftBoundary(pre) == pre = <<>> \/ ~(IsWordB(pre[Len(pre)]) \/ pre[Len(pre)] = DOT \/ pre[Len(pre)] = 45)
=============================================================================
