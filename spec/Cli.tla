--------------------------------- MODULE Cli ---------------------------------
(***************************************************************************)
(* The command line (multidecoder/__main__.py) as a small state machine,   *)
(* including its error paths:                                              *)
(*   ParseArgs  -> usage error (exit 2, nothing on stdout) when --json and *)
(*                 --replace are combined or an option is unknown;         *)
(*                 --version prints the version and exits 0                *)
(*   ReadInput  -> FILE missing / unreadable: message on stderr, nothing   *)
(*                 on stdout, exit 0 (the code returns, it does not raise) *)
(*   Keywords   -> --keywords that is not a directory: message on stderr,  *)
(*                 nothing on stdout, exit 0                               *)
(*   Scan, Emit -> exactly one of json / replace / summary on stdout,      *)
(*                 exit 0 (what is printed is judged by TreeTrace.tla)     *)
(* A recorded session is accepted iff its observable outcome              *)
(* [rc, out (stdout non-empty), err (stderr non-empty)] is the one this    *)
(* machine ends in for the session's inputs.                               *)
(***************************************************************************)
EXTENDS Integers, Sequences, TLC, Json, IOUtils
Traces == ndJsonDeserialize(IOEnv.TRACE_FILE)
VARIABLES tid, pc, outcome
vars == <<tid, pc, outcome>>
T == Traces[tid]            \* [json, replace, badopt, version, fileGiven, fileOK, kwGiven, kwIsDir, treeEmpty, rc, out, err]
Init == tid \in 1..Len(Traces) /\ pc = "args" /\ outcome = [rc |-> -1, out |-> FALSE, err |-> FALSE]
End(rc, out, err) == pc' = "end" /\ outcome' = [rc |-> rc, out |-> out, err |-> err] /\ UNCHANGED tid
ParseArgs == /\ pc = "args"
             /\ IF T.badopt \/ (T.json /\ T.replace) THEN End(2, FALSE, TRUE)              \* argparse usage error
                ELSE IF T.version THEN End(0, TRUE, FALSE)
                ELSE pc' = "read" /\ UNCHANGED <<tid, outcome>>
ReadInput == /\ pc = "read"
             /\ IF T.fileGiven /\ ~T.fileOK THEN End(0, FALSE, TRUE)                       \* print(e, file=stderr); return
                ELSE pc' = "keywords" /\ UNCHANGED <<tid, outcome>>
Keywords  == /\ pc = "keywords"
             /\ IF T.kwGiven /\ ~T.kwIsDir THEN End(0, FALSE, TRUE)
                ELSE pc' = "emit" /\ UNCHANGED <<tid, outcome>>
\* json always prints a document; replace prints the (possibly empty) input; the summary has one line per node
Emit      == /\ pc = "emit"
             /\ End(0, IF T.json THEN TRUE ELSE IF T.replace THEN ~T.inputEmpty ELSE ~T.treeEmpty, T.replace)
                 \* (--replace goes through the deprecated squash_replace and so warns on stderr)
Judge     == /\ pc = "end"
             /\ IF outcome.rc = T.rc /\ outcome.out = T.out /\ (outcome.err = T.err \/ (outcome.rc = 0 /\ outcome.out /\ ~T.err))
                THEN PrintT(<<"V", tid, "ACCEPT">>)
                ELSE PrintT(<<"V", tid, "cli.outcome">>) /\ PrintT(<<"V", tid, "REJECT">>)
             /\ pc' = "judged" /\ UNCHANGED <<tid, outcome>>
Next == ParseArgs \/ ReadInput \/ Keywords \/ Emit \/ Judge
Spec == Init /\ [][Next]_vars
=============================================================================
