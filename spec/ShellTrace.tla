------------------------------ MODULE ShellTrace ------------------------------
(***************************************************************************)
(* The real strip_carets / find_cmd_strings / find_powershell_strings,     *)
(* judged against Shell.tla.  One trace line = one call:                   *)
(*  caret: s, out (or raised)                                              *)
(*  cmd:   data, matches = [start, mend] spans of the cmd-token regex      *)
(*         (token .. next NUL / end), hits = what the function returned    *)
(*  ps:    data, inds = [start, encEnd] per PowerShell indicator the regex *)
(*         stage found (encEnd = -1 without an encoded argument), hits     *)
(* The regular expressions that locate tokens are not modelled; where a    *)
(* command ends, what its value is and how it is labelled are.             *)
(***************************************************************************)
EXTENDS Shell, Json, IOUtils
Traces == ndJsonDeserialize(IOEnv.TRACE_FILE)
VARIABLES tid, judged
T == Traces[tid]
CoreN(h) == [s |-> h.s, e |-> h.e, ty |-> h.ty, val |-> h.val, obf |-> h.obf]
Core(hs) == [i \in 1..Len(hs) |-> CoreN(hs[i])]

CmdExpected == [i \in 1..Len(T.matches) |-> CmdNode(T.data, T.matches[i][1], T.matches[i][2])]

\* per indicator: <<dom, nodes, kidsOfFirst>>
PsOne(ind) ==
  LET start == ind[1]  encEnd == ind[2]
      end == PsEnd(T.data, start, encEnd)
      text == SubSeq(T.data, start + 1, end)
      de == CaretSpec(text)
      changed == de # text
      rw == EncRewrite(de)
  IN IF encEnd >= 0
     THEN IF ~rw.dom THEN [dom |-> FALSE, nodes |-> <<>>, kids |-> <<>>]
          ELSE IF changed
               THEN [dom |-> TRUE, nodes |-> <<[s |-> start, e |-> end, ty |-> "shell.cmd", val |-> de, obf |-> CARETS]>>,
                     kids |-> <<[s |-> 0, e |-> Len(rw.val), ty |-> "shell.powershell", val |-> rw.val, obf |-> "powershell.base64"]>>]
               ELSE [dom |-> TRUE, nodes |-> <<[s |-> start, e |-> end, ty |-> "shell.powershell", val |-> rw.val, obf |-> "powershell.base64"]>>,
                     kids |-> <<>>]
     ELSE [dom |-> TRUE, nodes |-> <<[s |-> start, e |-> end, ty |-> "shell.powershell", val |-> de, obf |-> IF changed THEN CARETS ELSE ""]>>,
           kids |-> <<>>]
PsAll == [i \in 1..Len(T.inds) |-> PsOne(T.inds[i])]
PsDom == \A i \in 1..Len(T.inds) : PsAll[i].dom
PsExpected == Concat([i \in 1..Len(T.inds) |-> PsAll[i].nodes])
PsKidsOK == LET exp == Concat([i \in 1..Len(T.inds) |-> IF PsAll[i].nodes = <<>> THEN <<>> ELSE << PsAll[i].kids >>])
            IN Len(exp) = Len(T.hits) /\ \A i \in 1..Len(exp) : Core(T.hits[i].kids) = exp[i]
\* the only difference is the end of a command that has no encoded argument and no enclosing context
PsOnlyNoContextEnd ==
  /\ Len(T.hits) = Len(PsExpected)
  /\ \A i \in 1..Len(T.hits) :
       \/ CoreN(T.hits[i]) = PsExpected[i]
       \/ /\ [CoreN(T.hits[i]) EXCEPT !.e = 0] = [PsExpected[i] EXCEPT !.e = 0]
          /\ \E k \in 1..Len(T.inds) : T.inds[k][1] = T.hits[i].s /\ T.inds[k][2] < 0 /\ PsContext(T.data, T.inds[k][1]) = "none"

Clauses ==
  IF T.raised # "" THEN {"raised"}
  ELSE IF T.kind = "caret" THEN (IF T.out = CaretSpec(T.s) THEN {} ELSE {"caret"})
  ELSE IF T.kind = "cmd" THEN
       (IF Core(T.hits) = CmdExpected THEN {}
        ELSE IF Len(T.hits) = Len(CmdExpected) /\ \A i \in 1..Len(T.hits) : T.hits[i].s = CmdExpected[i].s /\ T.hits[i].e = CmdExpected[i].e
             THEN (IF \A i \in 1..Len(T.hits) : T.hits[i].val = CmdExpected[i].val THEN {"cmd.label"} ELSE {"cmd.value"})
             ELSE {"cmd.span"})
  ELSE IF ~PsDom THEN {"n/a"}
  ELSE (IF Core(T.hits) = PsExpected THEN (IF PsKidsOK THEN {} ELSE {"ps.child"})
        ELSE IF PsOnlyNoContextEnd THEN {"ps.end.nocontext"} ELSE {"ps.node"})
Init == tid \in 1..Len(Traces) /\ judged = FALSE
Judge == /\ ~judged
         /\ LET cl == Clauses IN
            /\ \A c \in cl : PrintT(<<"V", tid, c>>)
            /\ PrintT(<<"V", tid, IF cl \subseteq {"n/a"} THEN "ACCEPT" ELSE "REJECT">>)
         /\ judged' = TRUE /\ UNCHANGED tid
Spec == Init /\ [][Judge]_<<tid, judged>>
=============================================================================
