CONSTANTS
 Alphabet = {40, 41, 120}
 MaxLen = 7
SPECIFICATION Spec
INVARIANT Refines
PROPERTY Terminates
CHECK_DEADLOCK FALSE
