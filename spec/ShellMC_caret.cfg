CONSTANTS
 Alphabet = {94, 34, 13, 10, 120}
 MaxLen = 6
 Which = "caret"
 Variant = "fixed"
SPECIFICATION Spec
INVARIANT NoIndexError
INVARIANT CaretRefines
INVARIANT ParenRefines
INVARIANT CaretShrinks
PROPERTY Terminates
CHECK_DEADLOCK FALSE
