------------------------------ MODULE StringOps ------------------------------
(***************************************************************************)
(* String expressions that the decoders evaluate (C15): concatenation of   *)
(* literals, reversal, and the four replace dialects.  Each dialect has a  *)
(* small parser for the *documented* surface syntax; a parse returns       *)
(* [ok, ...parts..., next].  Literals are in the domain of C15 when their  *)
(* content has no quote character (' " `) and no backslash.                *)
(***************************************************************************)
EXTENDS Bytes

SQ == 39  DQ == 34  BT == 96  BS == 92
IsWs(c) == c = 32 \/ (c >= 9 /\ c <= 13)                       \* \s for bytes patterns
At(s, i) == IF i >= 1 /\ i <= Len(s) THEN s[i] ELSE -1
RECURSIVE SkipWs(_, _)
SkipWs(s, i) == IF IsWs(At(s, i)) THEN SkipWs(s, i + 1) ELSE i
RECURSIVE SkipWsU(_, _)                                         \* whitespace or VB line continuation "_"
SkipWsU(s, i) == IF IsWs(At(s, i)) \/ At(s, i) = 95 THEN SkipWsU(s, i + 1) ELSE i

\* a quoted literal at i whose content is free of quote characters and - between double quotes, where it starts an escape - backslashes
\* (between single quotes a backslash is an ordinary character: 'C:\Users\Public\' is a complete literal)
Lit(s, i) ==
  LET q == At(s, i)
      close == {j \in (i+1)..Len(s) : s[j] = q}
      j == IF close = {} THEN 0 ELSE CHOOSE x \in close : \A y \in close : x <= y
      body == SubSeq(s, i + 1, j - 1)
      clean == \A k \in 1..Len(body) : body[k] \notin (IF q = SQ THEN {SQ, DQ, BT} ELSE {SQ, DQ, BT, BS})
  IN IF (q = SQ \/ q = DQ) /\ j > 0 /\ clean THEN [ok |-> TRUE, body |-> body, next |-> j + 1]
     ELSE [ok |-> FALSE, body |-> <<>>, next |-> i]

\* the word w at i, ASCII-case-insensitively
Word(s, i, w) == i + Len(w) - 1 <= Len(s) /\ Lower(SubSeq(s, i, i + Len(w) - 1)) = Lower(w)

---------------------------------------------------------------------------
(* concatenation: lit (op lit)+ with op one of + & &amp; surrounded by whitespace / "_" *)
OpLen(s, i) == IF Word(s, i, <<38, 97, 109, 112, 59>>) THEN 5        \* &amp;
               ELSE IF At(s, i) = 38 \/ At(s, i) = 43 THEN 1 ELSE 0
RECURSIVE ChainFrom(_, _, _)
ChainFrom(s, i, acc) ==          \* i just after a literal; acc = contents so far
  LET a == SkipWsU(s, i)
      ol == OpLen(s, a)
      b == SkipWsU(s, a + ol)
      l == Lit(s, b)
  IN IF i > Len(s) THEN [ok |-> TRUE, parts |-> acc]
     ELSE IF ol > 0 /\ l.ok THEN ChainFrom(s, l.next, Append(acc, l.body))
     ELSE [ok |-> FALSE, parts |-> acc]
ParseConcat(s) == LET l == Lit(s, 1) IN
                  IF l.ok THEN ChainFrom(s, l.next, <<l.body>>) ELSE [ok |-> FALSE, parts |-> <<>>]
\* a literal whose whole content reads as a joining operator in one of its separator spellings:
\* optional white space / "_" line continuations around +, & or &amp;
BareOp(b) == LET a == SkipWsU(b, 1)  ol == OpLen(b, a)  z == SkipWsU(b, a + ol) IN ol > 0 /\ z = Len(b) + 1
ConcatInDomain(p) == p.ok /\ Len(p.parts) >= 2 /\ \A k \in 1..Len(p.parts) : ~BareOp(p.parts[k])
ConcatValue(p) == Concat(p.parts)

---------------------------------------------------------------------------
(* reversal: name ( ws lit ws ) *)
ParseCall1(s, name) ==
  LET a == Len(name) + 1
      b == SkipWs(s, a + 1)
      l == Lit(s, b)
      c == SkipWs(s, l.next)
  IN IF Word(s, 1, name) /\ At(s, a) = 40 /\ l.ok /\ At(s, c) = 41 /\ c = Len(s)
     THEN [ok |-> TRUE, body |-> l.body] ELSE [ok |-> FALSE, body |-> <<>>]
REVERSE_  == <<114, 101, 118, 101, 114, 115, 101>>                \* reverse
REVERSED_ == REVERSE_ \o <<100>>
STRREVERSE_ == <<115, 116, 114>> \o REVERSE_                      \* strreverse

---------------------------------------------------------------------------
(* replacement *)
RECURSIVE BytesReplace(_, _, _)
BytesReplace(x, a, b) ==            \* bytes.replace for a non-empty pattern: leftmost, non-overlapping
  LET i == Find(x, a, 0) IN
  IF a = <<>> \/ i < 0 THEN x
  ELSE SubSeq(x, 1, i) \o b \o BytesReplace(SubSeq(x, i + Len(a) + 1, Len(x)), a, b)

REPLACE_ == <<114, 101, 112, 108, 97, 99, 101>>                   \* replace
\* three literals separated by commas, starting at i, followed by `close` (0 = nothing) at the end of s
Args(s, i, n, close) ==
  LET RECURSIVE Go(_, _, _)
      Go(j, k, acc) ==
        LET a == SkipWs(s, j)  l == Lit(s, a)  b == SkipWs(s, l.next) IN
        IF ~l.ok THEN [ok |-> FALSE, args |-> acc]
        ELSE IF k = n THEN
               IF close = 0 THEN [ok |-> l.next = Len(s) + 1, args |-> Append(acc, l.body)]
               ELSE [ok |-> At(s, b) = close /\ b = Len(s), args |-> Append(acc, l.body)]
        ELSE IF At(s, b) = 44 THEN Go(b + 1, k + 1, Append(acc, l.body))
        ELSE [ok |-> FALSE, args |-> acc]
  IN Go(i, 1, <<>>)
\* "x".replace("a","b")
ParseMethodReplace(s) ==
  LET x == Lit(s, 1)
      dot == x.next
      rest == Args(s, dot + 9, 2, 41)
  IN IF x.ok /\ At(s, dot) = 46 /\ Word(s, dot + 1, REPLACE_) /\ At(s, dot + 8) = 40 /\ rest.ok
     THEN [ok |-> TRUE, x |-> x.body, a |-> rest.args[1], b |-> rest.args[2]] ELSE [ok |-> FALSE, x |-> <<>>, a |-> <<>>, b |-> <<>>]
\* Replace("x","a","b")
ParseVbaReplace(s) ==
  LET rest == Args(s, 9, 3, 41) IN
  IF Word(s, 1, REPLACE_) /\ At(s, 8) = 40 /\ rest.ok
  THEN [ok |-> TRUE, x |-> rest.args[1], a |-> rest.args[2], b |-> rest.args[3]] ELSE [ok |-> FALSE, x |-> <<>>, a |-> <<>>, b |-> <<>>]
\* "x" -replace "a","b"
ParsePsReplace(s) ==
  LET x == Lit(s, 1)
      m == SkipWs(s, x.next)
      rest == Args(s, m + 8, 2, 0)
  IN IF x.ok /\ At(s, m) = 45 /\ Word(s, m + 1, REPLACE_) /\ rest.ok
     THEN [ok |-> TRUE, x |-> x.body, a |-> rest.args[1], b |-> rest.args[2]] ELSE [ok |-> FALSE, x |-> <<>>, a |-> <<>>, b |-> <<>>]
\* "x".replace(/a/flags,"b") with a metacharacter-free pattern
MetaChars == {47, 91, 93, 40, 41, 123, 125, 92, 46, 43, 42, 63, 94, 36, 44}     \* / [ ] ( ) { } \ . + * ? ^ $ ,
ParseJsReplace(s) ==
  LET x == Lit(s, 1)
      dot == x.next
      p0 == dot + 10                                             \* first byte of the pattern
      ends == {j \in p0..Len(s) : s[j] = 47}
      pe == IF ends = {} THEN 0 ELSE CHOOSE j \in ends : \A y \in ends : j <= y
      pat == SubSeq(s, p0, pe - 1)
      RECURSIVE Flags(_)
      Flags(j) == IF At(s, j) \in {103, 105, 109} THEN Flags(j + 1) ELSE j
      f == Flags(pe + 1)
      c == SkipWs(s, f)
      rest == Args(s, c + 1, 1, 41)
  IN IF x.ok /\ At(s, dot) = 46 /\ Word(s, dot + 1, REPLACE_) /\ At(s, dot + 8) = 40 /\ At(s, dot + 9) = 47
        /\ pe > 0 /\ pat # <<>> /\ (\A k \in 1..Len(pat) : pat[k] \notin MetaChars) /\ f - pe - 1 <= 3
        /\ At(s, c) = 44 /\ rest.ok
     THEN [ok |-> TRUE, x |-> x.body, a |-> pat, b |-> rest.args[1]] ELSE [ok |-> FALSE, x |-> <<>>, a |-> <<>>, b |-> <<>>]
=============================================================================
