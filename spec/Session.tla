------------------------------- MODULE Session -------------------------------
(***************************************************************************)
(* C01 as a behaviour: a library session is                                *)
(*   Call(input, k); Return(tree); View(flatten); View(iterate);           *)
(*   View(summary); View(json); View(json_back)                            *)
(* There is no action for an exception or for a call that never returns,   *)
(* so a recorded "raise" / "timeout" event is not a behaviour of this      *)
(* specification and the trace is rejected at that event.  (Termination of *)
(* the engine itself is the liveness property of Scan.tla; this module is  *)
(* the observable contract.)                                               *)
(***************************************************************************)
EXTENDS Integers, Sequences, TLC, Json, IOUtils
Traces == ndJsonDeserialize(IOEnv.TRACE_FILE)
Views == <<"flatten", "iterate", "summary", "json", "json_back">>
VARIABLES tid, st, l
vars == <<tid, st, l>>
E == Traces[tid].events
Init == tid \in 1..Len(Traces) /\ st = "idle" /\ l = 1
Ev(name) == l >= 1 /\ l <= Len(E) /\ E[l] = name /\ l' = l + 1 /\ UNCHANGED tid
Call   == st = "idle" /\ Ev("call") /\ st' = "scanning"
Return == st = "scanning" /\ Ev("return") /\ st' = "view1"
View(i) == st = "view" \o ToString(i) /\ Ev(Views[i]) /\ st' = IF i = Len(Views) THEN "done" ELSE "view" \o ToString(i + 1)
Next == Call \/ Return \/ \E i \in 1..Len(Views) : View(i)
\* the verdict: emitted when no action is enabled any more
Can(name) == l >= 1 /\ l <= Len(E) /\ E[l] = name
Stuck == ~( (st = "idle" /\ Can("call")) \/ (st = "scanning" /\ Can("return"))
            \/ \E i \in 1..Len(Views) : st = "view" \o ToString(i) /\ Can(Views[i]) )
Judge == /\ Stuck /\ l # 0
         /\ IF st = "done" /\ l = Len(E) + 1 THEN PrintT(<<"V", tid, "ACCEPT">>)
            ELSE PrintT(<<"V", tid, IF l <= Len(E) THEN E[l] ELSE "incomplete">>) /\ PrintT(<<"V", tid, "REJECT">>)
         /\ l' = 0 /\ UNCHANGED <<tid, st>>
Spec == Init /\ [][Next \/ Judge]_vars
=============================================================================
