------------------------------- MODULE Bytes -------------------------------
(* Byte strings as Seq(0..255) with the Python operations the implementation uses. *)
EXTENDS Integers, Sequences, FiniteSets, TLC, SequencesExt

Tup(f) == f \o <<>>                              \* force a lazily evaluated function into a tuple

IsUpperB(b) == b >= 65 /\ b <= 90
IsLowerB(b) == b >= 97 /\ b <= 122
IsAlphaB(b) == IsUpperB(b) \/ IsLowerB(b)
IsDigitB(b) == b >= 48 /\ b <= 57
IsAlnumB(b) == IsAlphaB(b) \/ IsDigitB(b)
LowerB(b) == IF IsUpperB(b) THEN b + 32 ELSE b
UpperB(b) == IF IsLowerB(b) THEN b - 32 ELSE b
Lower(s)  == [i \in 1..Len(s) |-> LowerB(s[i])]   \* bytes.lower(): ASCII only
Upper(s)  == [i \in 1..Len(s) |-> UpperB(s[i])]

\* python slice semantics s[a:b] (negative and out-of-range indices included)
Clamp(i, n) == IF i < 0 THEN (IF i + n < 0 THEN 0 ELSE i + n) ELSE IF i > n THEN n ELSE i
PySlice(s, a, b) == LET n == Len(s)  lo == Clamp(a, n)  hi == Clamp(b, n)
                    IN IF lo >= hi THEN <<>> ELSE SubSeq(s, lo + 1, hi)
PyFrom(s, a) == PySlice(s, a, Len(s))

\* bytes.isupper() / islower(): at least one cased byte and no cased byte of the other case
IsUpperS(s) == (\E i \in 1..Len(s) : IsUpperB(s[i])) /\ ~(\E i \in 1..Len(s) : IsLowerB(s[i]))
IsLowerS(s) == (\E i \in 1..Len(s) : IsLowerB(s[i])) /\ ~(\E i \in 1..Len(s) : IsUpperB(s[i]))

EndsWith(s, suf) == Len(s) >= Len(suf) /\ SubSeq(s, Len(s) - Len(suf) + 1, Len(s)) = suf
StartsWith(s, pre) == Len(s) >= Len(pre) /\ SubSeq(s, 1, Len(pre)) = pre

Concat(ss) == FlattenSeq(ss)       \* (SequencesExt; linear, unlike a Head/Tail recursion: values of 100 KB occur in CLI sessions)

\* first occurrence of pat in s at 0-based index >= from, or -1 (bytes.find)
Find(s, pat, from) ==
  LET cands == {i \in from..(Len(s) - Len(pat)) : i >= 0 /\ SubSeq(s, i + 1, i + Len(pat)) = pat}
  IN IF cands = {} THEN -1 ELSE CHOOSE i \in cands : \A j \in cands : i <= j
=============================================================================
