----------------------------- MODULE KeywordGen -----------------------------
(* Exports the (keyword, data) universe of KeywordMC for replay through the real registry. *)
EXTENDS KeywordMC, Json, IOUtils
ASSUME JsonSerialize(IOEnv.OUT_FILE, [kws |-> KwSeq, data |-> DataSeq])
=============================================================================
