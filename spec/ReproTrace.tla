----------------------------- MODULE ReproTrace -----------------------------
(***************************************************************************)
(* Validation of recorded histories against Repro.tla's reading of C09.    *)
(* A history is a sequence of events of the real system:                   *)
(*   StartProc(proc, seed, walk)   a process with PYTHONHASHSEED = seed    *)
(*                                 and directory enumeration order `walk`  *)
(*   NewScanner(proc, inst, cfg)   cfg identifies the configuration        *)
(*                                 *contents* (decoder set + keyword files)*)
(*   Begin(thread, inst, input, k) / End(thread, digest)                   *)
(* digest is a SHA-256 over the projected result tree (or over the CLI's   *)
(* stdout).  The first End for a key (cfg, input, k, view) binds the       *)
(* digest; every later End for the same key -- in another process, thread, *)
(* instance, or after any history -- has to agree.  Events are ordered by  *)
(* a sequence number taken under one lock, so the enabling conditions      *)
(* (thread idle / running, instance exists) are checked as well.           *)
(***************************************************************************)
EXTENDS Integers, Sequences, FiniteSets, TLC, Json, IOUtils
Histories == ndJsonDeserialize(IOEnv.TRACE_FILE)
VARIABLES hid, l, procs, insts, run, memo, bad
vars == <<hid, l, procs, insts, run, memo, bad>>
H == Histories[hid].events
E == H[l]

Init == /\ hid \in 1..Len(Histories) /\ l = 1 /\ procs = {} /\ insts = <<>> /\ run = <<>> /\ memo = <<>> /\ bad = <<>>
Has(f, x) == x \in DOMAIN f
Put(f, x, v) == [y \in DOMAIN f \cup {x} |-> IF y = x THEN v ELSE f[y]]
Drop(f, x) == [y \in DOMAIN f \ {x} |-> f[y]]

Step ==
  /\ l >= 1 /\ l <= Len(H) /\ bad = <<>>
  /\ l' = l + 1 /\ UNCHANGED hid
  /\ CASE E.ev = "StartProc" ->
            /\ procs' = procs \cup {E.proc} /\ UNCHANGED <<insts, run, memo>>
            /\ bad' = IF E.proc \in procs THEN <<"enabling", l>> ELSE bad
       [] E.ev = "NewScanner" ->
            /\ insts' = Put(insts, E.inst, [proc |-> E.proc, cfg |-> E.cfg]) /\ UNCHANGED <<procs, run, memo>>
            /\ bad' = IF E.proc \notin procs \/ Has(insts, E.inst) THEN <<"enabling", l>> ELSE bad
       [] E.ev = "Begin" ->
            /\ run' = Put(run, E.thread, [inst |-> E.inst, input |-> E.input, k |-> E.k, view |-> E.view])
            /\ UNCHANGED <<procs, insts, memo>>
            /\ bad' = IF ~Has(insts, E.inst) \/ Has(run, E.thread) THEN <<"enabling", l>> ELSE bad
       [] E.ev = "End" ->
            IF ~Has(run, E.thread) THEN bad' = <<"enabling", l>> /\ UNCHANGED <<procs, insts, run, memo>>
            ELSE LET r == run[E.thread]  key == <<insts[r.inst].cfg, r.input, r.k, r.view>> IN
                 /\ run' = Drop(run, E.thread) /\ UNCHANGED <<procs, insts>>
                 /\ IF E.digest = "EXC" THEN bad' = <<"raised", l>> /\ UNCHANGED memo
                    ELSE IF Has(memo, key)
                         THEN /\ UNCHANGED memo
                              /\ bad' = IF memo[key] = E.digest THEN bad ELSE <<"nondeterministic", l>>
                         ELSE memo' = Put(memo, key, E.digest) /\ bad' = bad
Finish ==
  /\ (l > Len(H) \/ bad # <<>>) /\ l # -1
  /\ IF bad = <<>> THEN PrintT(<<"V", hid, "ACCEPT">>)
     ELSE PrintT(<<"V", hid, bad[1]>>) /\ PrintT(<<"AT", hid, bad[2]>>) /\ PrintT(<<"V", hid, "REJECT">>)
  /\ l' = -1 /\ UNCHANGED <<hid, procs, insts, run, memo, bad>>
Next == Step \/ Finish
Spec == Init /\ [][Next]_vars
=============================================================================
