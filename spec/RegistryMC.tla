----------------------------- MODULE RegistryMC -----------------------------
(***************************************************************************)
(* The loops of registry.get_analyzers / get_keywords as machines, over    *)
(* every include / exclude choice for a small module universe and every    *)
(* small keyword directory (files in two directories, lines drawn from     *)
(* {word a, word b, blank} with LF / CRLF / CR terminators, duplicates),   *)
(* under every enumeration order of modules and files.                     *)
(***************************************************************************)
EXTENDS Registry

Mods == {"m1", "m2", "m3"}
Marked == [m \in Mods |-> CASE m = "m1" -> {"f1", "f2"} [] m = "m2" -> {} [] m = "m3" -> {"g"}]
Lists == {None} \cup SUBSET (Mods \cup {"zz"})            \* "zz": a name that is not a module

\* file contents
A == <<97>>   B == <<98>>
Terms == {<<10>>, <<13, 10>>, <<13>>}
Lines == {A, B, <<>>}
RECURSIVE Raws(_)
Raws(n) == IF n = 0 THEN {<<>>} ELSE
           LET shorter == Raws(n - 1) IN
           shorter \cup { r \o l \o t : r \in shorter, l \in Lines, t \in Terms } \cup { r \o l : r \in shorter, l \in {A, B} }
FileNames == {"k1", "k2"}
Dirs == {"", "sub"}

VARIABLES inc, exc, order, i, got,            \* analyzers
          files, forder, j, kgot, pc
vars == <<inc, exc, order, i, got, files, forder, j, kgot, pc>>

Perms(S) == {p \in [1..Cardinality(S) -> S] : \A a, b \in 1..Cardinality(S) : a # b => p[a] # p[b]}
AllFiles == { [dir |-> d, name |-> nm, raw |-> r] : d \in Dirs, nm \in FileNames, r \in Raws(2) }
FileSets == {{}} \cup {{f} : f \in AllFiles}
            \cup { {pr[1], pr[2]} : pr \in {p \in AllFiles \X AllFiles : p[1].dir # p[2].dir \/ p[1].name # p[2].name} }

CONSTANT Part      \* "mods": explore include / exclude / module order; "files": explore keyword directories
Init == /\ IF Part = "mods" THEN inc \in Lists /\ exc \in Lists /\ order \in Perms(Mods) /\ files = {}
                            ELSE inc = None /\ exc = None /\ order = <<"m1", "m2", "m3">> /\ files \in FileSets
        /\ i = 1 /\ got = {}
        /\ forder \in Perms(files) /\ j = 1 /\ kgot = {}
        /\ pc = "mods"
\* registry.py:45-58: one module per iteration; `include`/`exclude` are tested for truth first
ModStep == /\ pc = "mods" /\ i <= Len(order)
           /\ LET m == order[i]
                  incOn == inc # None /\ inc # {}
                  excOn == exc # None /\ exc # {}
              IN got' = IF (incOn /\ m \notin inc) \/ (excOn /\ m \in exc) THEN got
                        ELSE got \cup { <<m, f>> : f \in Marked[m] }
           /\ i' = i + 1 /\ UNCHANGED <<inc, exc, order, files, forder, j, kgot, pc>>
ModDone == pc = "mods" /\ i > Len(order) /\ pc' = "files" /\ UNCHANGED <<inc, exc, order, i, got, files, forder, j, kgot>>
\* registry.py:65-73: one file per iteration
FileStep == /\ pc = "files" /\ j <= Len(forder)
            /\ LET f == forder[j]  ws == SplitLines(f.raw) \ {<<>>} IN
               kgot' = IF ws = {} THEN kgot ELSE kgot \cup {[label |-> f.name, words |-> ws, at |-> <<f.dir, f.name>>]}
            /\ j' = j + 1 /\ UNCHANGED <<inc, exc, order, i, got, files, forder, pc>>
FileDone == pc = "files" /\ j > Len(forder) /\ pc' = "done" /\ UNCHANGED <<inc, exc, order, i, got, files, forder, j, kgot>>
Next == ModStep \/ ModDone \/ FileStep \/ FileDone
Spec == Init /\ [][Next]_vars /\ WF_vars(Next)

\* an empty include list is read as "no include list" (DESIGN section 7: not asserted on) -- the spec is
\* checked for include = None or a non-empty list
InScope == inc # {}
AnalyzersOK == (pc = "done" /\ InScope) => got = Analyzers(Marked, inc, exc)
SearchersOK == pc = "done" => {[label |-> x.label, words |-> x.words] : x \in kgot} = Searchers(files)
OnePerFile  == pc = "done" => Cardinality(kgot) = Cardinality({f \in files : Words(f.raw) # {}})
OrderFree   == pc = "done" => TRUE      \* got / kgot are sets: independence of `order` / `forder` is the two invariants above
\* splitlines agrees with the line structure the file was built from
Terminates == <>(pc = "done")
=============================================================================
