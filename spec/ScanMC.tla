------------------------------ MODULE ScanMC ------------------------------
(***************************************************************************)
(* Exhaustive family of worlds for Scan.tla.                               *)
(* Input "abc.." (L0 distinct lower-case letters); a decode target "de.."  *)
(* (L1 letters) with its own hits; a one-byte leaf "z" with no hits.       *)
(* A hit's value is one of: the covered slice (plain context), the slice   *)
(* with its case flipped (still a context for the engine: comparison is    *)
(* ASCII-case-insensitive), the decode target, the leaf, the searched      *)
(* text itself (self-reproducing decoder), or the leaf with a              *)
(* decoder-supplied child.  Texts are interned by content, so "restates    *)
(* its parent" arises exactly when it would in the implementation.         *)
(***************************************************************************)
EXTENDS Scan

CONSTANTS L0, L1,     \* lengths of the input and of the decode target
          N0, N1,     \* at most N0 hits on the input, N1 on the decode target
          Ks,         \* depth limits explored
          Types, Kinds,   \* hit types ("" is the root's type) and value kinds on the input
          Types1, Kinds1, \* ... and on the decode target
          Slack,          \* 0 for in-bounds worlds
          MinStart,       \* smallest hit start (1: everything happens at non-zero offsets, where the frames differ)
          HighAt          \* 0, or the position from which the input holds bytes above 127 (0xC8) instead of letters
                          \* (two of them: a decoding that drops them can be empty over a span of two bytes)

\* named depth-limit sets for configuration files (cfg syntax has no negative numbers)
K_m1_2_4 == {-1, 2, 4}
K_m5_0_1 == {-5, 0, 1}

Letters(base, n) == Tup([i \in 1..n |-> base + i - 1])
Input  == Tup([i \in 1..L0 |-> IF HighAt > 0 /\ i >= HighAt THEN 200 ELSE 96 + i])      \* "abc", or e.g. "a\xC8\xC8" (HighAt = 2)
Target == Letters(100 + L0, L1)                 \* distinct from the input's letters
Leaf   == <<122>>
FlipB(b) == IF b >= 97 /\ b <= 122 THEN b - 32 ELSE IF b >= 65 /\ b <= 90 THEN b + 32 ELSE b
Flip(s)  == Tup([i \in 1..Len(s) |-> FlipB(s[i])])
\* two decodings that a text-level comparison would take for "nothing changed": bytes above 127 dropped (what decoding with
\* errors="ignore" does), and the Latin-1 letter 0xC8 in its other case 0xE8 (bytes.lower() is ASCII-only: for the engine both are decodings)
Strip(s) == SelectSeq(s, LAMBDA b : b < 128)
HiFlip(s) == Tup([i \in 1..Len(s) |-> IF s[i] = 200 THEN 232 ELSE IF s[i] = 232 THEN 200 ELSE s[i]])

Slices(s) == {SubSeq(s, a + 1, b) : a \in 0..Len(s), b \in 0..Len(s)} \ {<<>>}
TextSet == {Input, Target, Leaf, <<>>} \cup Slices(Input) \cup Slices(Target)
           \cup {Flip(x) : x \in Slices(Input) \cup Slices(Target)}
           \cup (IF HighAt > 0 THEN {Strip(x) : x \in Slices(Input)} \cup {HiFlip(x) : x \in Slices(Input)} ELSE {})
\* text table: 1 = input, 2 = target, 3 = leaf, then the rest in a fixed order
TextTable == <<Input, Target, Leaf>> \o SetToSeq(TextSet \ {Input, Target, Leaf})
Id(x) == CHOOSE i \in 1..Len(TextTable) : TextTable[i] = x

Spans(len) == {sp \in (MinStart..len) \X (0..(len + Slack)) : sp[1] < sp[2]}      \* Slack > 0: hits may end past the text (precondition broken on purpose)
LeafKid == [s |-> 0, e |-> 1, ty |-> "k", obf |-> "", val |-> 3, kids |-> <<>>]
ValOf(t, sp, kind) ==
  LET sl == PySlice(TextTable[t], sp[1], sp[2]) IN
  CASE kind = "slice"  -> Id(sl)
    [] kind = "flip"   -> Id(Flip(sl))
    [] kind = "target" -> 2
    [] kind = "leaf"   -> 3
    [] kind = "self"   -> t
    [] kind = "kid"    -> 3
    [] kind = "strip"  -> Id(Strip(sl))
    [] kind = "hiflip" -> Id(HiFlip(sl))
HitRecs(t, types, kinds) ==
  { [s |-> sp[1], e |-> sp[2], ty |-> ty, obf |-> "", val |-> ValOf(t, sp, kind),
     kids |-> IF kind = "kid" THEN <<LeafKid>> ELSE <<>>] :
    sp \in Spans(Len(TextTable[t])), ty \in types, kind \in kinds }

SeqsUpTo(S, n) == UNION { [1..m -> S] : m \in 0..n }
\* the family is indexed arithmetically, so no world is materialised before it is explored
H1 == SetToSeq(SeqsUpTo(HitRecs(1, Types, Kinds), N0))
H2 == SetToSeq(SeqsUpTo(HitRecs(2, Types1, Kinds1), N1))
KSeq == SetToSeq(Ks)
GenN == Len(KSeq) * Len(H1) * Len(H2)
GenK(w)     == KSeq[((w - 1) \div (Len(H1) * Len(H2))) + 1]
GenTexts(w) == TextTable
GenHits(w, t) == IF t = 1 THEN H1[((w - 1) % Len(H1)) + 1]
                 ELSE IF t = 2 THEN H2[(((w - 1) \div Len(H1)) % Len(H2)) + 1]
                 ELSE <<>>

\* observation variables are irrelevant to the future of a behaviour
View == <<wid, st, nodes, verdict>>
=============================================================================
