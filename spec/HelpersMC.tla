------------------------------ MODULE HelpersMC ------------------------------
EXTENDS Helpers
CONSTANTS Alphabet, MaxLen
Strings == UNION { [1..n -> Alphabet] : n \in 0..MaxLen }
VARIABLES data, start, index, balance, pc
vars == <<data, start, index, balance, pc>>
Init == data \in Strings /\ start \in 0..Len(data) /\ index = start /\ balance = 1 /\ pc = "loop"
Step == /\ pc = "loop" /\ index < Len(data) /\ balance # 0            \* vba.py: while index < len(data) and balance
        /\ balance' = IF data[index + 1] = RP THEN balance - 1 ELSE IF data[index + 1] = LP THEN balance + 1 ELSE balance
        /\ index' = index + 1 /\ UNCHANGED <<data, start, pc>>
Exit == /\ pc = "loop" /\ ~(index < Len(data) /\ balance # 0) /\ pc' = "done" /\ UNCHANGED <<data, start, index, balance>>
Next == Step \/ Exit
Spec == Init /\ [][Next]_vars /\ WF_vars(Next)
Result == IF balance = 0 THEN index ELSE -1
Refines == pc = "done" => Result = ClosingBrace(data, start)
Terminates == <>(pc = "done")
=============================================================================
