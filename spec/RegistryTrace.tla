---------------------------- MODULE RegistryTrace ----------------------------
(* One trace line = one call of build_registry / get_analyzers / get_keywords of the real code:
   the configuration it was given (modules with the functions an independent `ast` scan found marked,
   include / exclude lists, the raw bytes of every file of the keyword directory) and what it returned
   (functions by module and name; searchers by label and word list).  TLC recomputes both sets. *)
EXTENDS Registry, Json, IOUtils
Traces == ndJsonDeserialize(IOEnv.TRACE_FILE)
VARIABLES tid, judged
T == Traces[tid]
MarkedFn == [m \in {T.marked[i].m : i \in 1..Len(T.marked)} |->
               UNION { {T.marked[i].fs[x] : x \in 1..Len(T.marked[i].fs)} : i \in {y \in 1..Len(T.marked) : T.marked[y].m = m} }]
Inc == IF T.incNone THEN None ELSE ToSet(T.inc)
Exc == IF T.excNone THEN None ELSE ToSet(T.exc)
GotFns == {<<T.gotFns[i][1], T.gotFns[i][2]>> : i \in 1..Len(T.gotFns)}
GotKw  == {[label |-> T.gotKw[i].label, words |-> ToSet(T.gotKw[i].words)] : i \in 1..Len(T.gotKw)}
Files  == {[name |-> T.files[i].name, raw |-> T.files[i].raw, at |-> i] : i \in 1..Len(T.files)}
Expected == {[label |-> f.name, words |-> Words(f.raw)] : f \in {g \in Files : Words(g.raw) # {}}}
\* behavioural probe: the default scanner applies the decoder - the expected (type, label) appears in the result tree
ProbeOK == \E i \in 1..Len(T.nodes) : T.nodes[i][1] = T.want[1] /\ T.nodes[i][2] = T.want[2]
Clauses ==
  IF T.kind = "probe" THEN (IF ProbeOK THEN {} ELSE {"probe"}) ELSE
  (IF T.failed # <<>> THEN {"raised"} ELSE {})
  \cup (IF T.checkFns /\ GotFns # Analyzers(MarkedFn, Inc, Exc) THEN {"analyzers"} ELSE {})
  \cup (IF T.checkFns /\ Cardinality(GotFns) # Len(T.gotFns) THEN {"duplicate-decoder"} ELSE {})
  \cup (IF T.checkKw /\ GotKw # Expected THEN {"searchers"} ELSE {})
  \cup (IF T.checkKw /\ Len(T.gotKw) # Cardinality({f \in Files : Words(f.raw) # {}}) THEN {"searcher-count"} ELSE {})
  \cup (IF T.checkKw /\ \E i \in 1..Len(T.gotKw) : Len(T.gotKw[i].words) # Cardinality(ToSet(T.gotKw[i].words)) THEN {"duplicate-word"} ELSE {})
  \* behaviour, not only what the searcher holds: applied to a text with one of its words it reports that word, typed by the file's name
  \cup (IF T.checkKw /\ \E i \in 1..Len(T.gotKw) :
              \/ (T.gotKw[i].words # <<>> /\ T.gotKw[i].applied = <<>>)
              \/ \E j \in 1..Len(T.gotKw[i].applied) : T.gotKw[i].applied[j][1] # T.gotKw[i].label
        THEN {"searcher-label"} ELSE {})
Init == tid \in 1..Len(Traces) /\ judged = FALSE
Judge == /\ ~judged
         /\ LET cl == Clauses IN
            /\ \A c \in cl : PrintT(<<"V", tid, c>>)
            /\ PrintT(<<"V", tid, IF cl = {} THEN "ACCEPT" ELSE "REJECT">>)
         /\ judged' = TRUE /\ UNCHANGED tid
Spec == Init /\ [][Judge]_<<tid, judged>>
=============================================================================
