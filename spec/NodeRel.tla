------------------------------- MODULE NodeRel -------------------------------
(***************************************************************************)
(* The relation every labelled node has to have to the text it replaced    *)
(* (C13, C14, C15, "every node carrying the label satisfies ..."), and the *)
(* converse obligations on generated instances ("every instance in the     *)
(* documented domain is decoded as one unit covering exactly the encoded   *)
(* text").  One trace line is either                                       *)
(*   kind = "node": a node met in a real scan: ty, obf, cov (the slice of  *)
(*          the parent's value it covers), val, pval (parent value, for    *)
(*          cipher.* children only);                                       *)
(*   kind = "inst": an instance proposed by the harness: enc (the encoder  *)
(*          name), payload, opts, blob, pre, suf and the nodes found at    *)
(*          the blob's absolute span.  TLC re-encodes the payload itself,  *)
(*          so what is in the domain is decided here, not in Python.       *)
(* Verdict clauses name the relation; "n/a" = outside the documented       *)
(* domain (counted, not judged).                                           *)
(***************************************************************************)
EXTENDS Codec, StringOps, Json, IOUtils

Traces == ndJsonDeserialize(IOEnv.TRACE_FILE)
VARIABLES tid, judged
T == Traces[tid]

FirstQ(s) == LET qs == {i \in 1..Len(s) : s[i] = SQ \/ s[i] = DQ} IN IF qs = {} THEN 0 ELSE CHOOSE i \in qs : \A j \in qs : i <= j
LastQ(s)  == LET qs == {i \in 1..Len(s) : s[i] = SQ \/ s[i] = DQ} IN IF qs = {} THEN 0 ELSE CHOOSE i \in qs : \A j \in qs : i >= j
Quoted(s) == SubSeq(s, FirstQ(s) + 1, LastQ(s) - 1)             \* argument of a call form f('...')
B64Text(s) == \A i \in 1..Len(s) : IsB64(s[i]) \/ s[i] = 61
Digits(s, from) == LET RECURSIVE D(_)
                       D(i) == IF IsDigitB(At(s, i)) THEN <<s[i]>> \o D(i + 1) ELSE <<>>
                   IN D(from)
XORPFX == <<99, 105, 112, 104, 101, 114, 46, 120, 111, 114>>   \* "cipher.xor"

\* ---- kind = "node" ------------------------------------------------------------------------
\* result: <<clause, holds>> ; clause "n/a" when the node is outside every documented domain
NodeVerdict ==
  LET cov == T.cov  val == T.val  ty == T.ty  obf == T.obf IN
  CASE obf = "encoding.base64" ->
         LET inner == IF ty = "" THEN B64Clean(cov) ELSE Quoted(cov) IN
         \* (a bare blob is reported only when it passes the acceptance rule: length, distinct characters, not all hex digits, not all letters, few slashes)
         IF B64Text(inner) /\ inner # <<>> THEN <<"b64", val = B64Decode(inner) /\ (ty # "" \/ BareB64Accept(inner))>> ELSE <<"n/a", TRUE>>
    [] obf = "decoded.hexadecimal" -> <<"hex", HexRun(cov) /\ val = Unhex(cov)>>
    \* (the call form is matched case-insensitively as a whole: its argument may mix the letter cases, unlike a bare run)
    [] obf = "encoding.hexidecimal" -> LET inner == Quoted(cov) IN <<"hex", Len(inner) >= 20 /\ Len(inner) % 2 = 0 /\ AllHex(inner) /\ val = Unhex(inner)>>
    [] StartsWith(T.obfb, XORPFX) /\ AllDigits(SubSeq(T.obfb, 11, Len(T.obfb))) ->
         LET key == DecVal(SubSeq(T.obfb, 11, Len(T.obfb))) IN
         <<"xor", key <= 255 /\ val = XorKey(T.pval, key) /\ T.s = 0 /\ T.e = Len(T.pval)>>
    [] obf = "cipher.multibyte_xor" ->
         <<"xor", Len(val) = Len(T.pval) /\ \E L \in 1..65 : RepeatingXor(T.pval, val, L)>>
    [] obf = "" /\ ty = "powershell.bytes" ->          \* a byte array literal: decimal or 0x-hexadecimal elements separated by commas
         LET parts == SplitAt(cov, 44)
             strip(x) == SelectSeq(x, LAMBDA c : ~IsWs(c))
             num(x) == LET y == strip(x) IN
                       IF Len(y) >= 3 /\ y[1] = 48 /\ (y[2] = 120 \/ y[2] = 88) /\ (\A i \in 3..Len(y) : IsHexDigit(y[i])) THEN HexNum(SubSeq(y, 3, Len(y)))
                       ELSE IF AllDigits(y) /\ Len(y) <= 3 THEN DecVal(y) ELSE -1
             vals == [i \in 1..Len(parts) |-> num(parts[i])]
         IN <<"psbytes", Len(parts) >= 501 /\ (\A i \in 1..Len(vals) : vals[i] >= 0 /\ vals[i] <= 255) /\ val = vals>>
    [] obf = "unescape.xml" -> <<"xml", val = XmlRefs(cov) /\ Len(val) >= 5>>
    [] obf = "function.chr" ->
         LET open == CHOOSE i \in 1..Len(cov) : cov[i] = 40
             ds == SubSeq(cov, open + 1, Len(cov) - 1) IN
         <<"chr", AllDigits(ds) /\ Encodable(DecVal(ds)) /\ val = Utf8(DecVal(ds)) /\ cov[Len(cov)] = 41>>
    [] obf = "function.unescape" -> <<"unescape", val = PercentDecode(Quoted(cov))>>
    [] obf = "codec.uft-16" -> <<"utf16", Utf16Latin1(cov) /\ Len(cov) >= 14 /\ val = Utf16ToUtf8(cov)>>
    [] obf = "concatenation" -> LET p == ParseConcat(cov) IN
         IF ConcatInDomain(p) THEN <<"concat", val = ConcatValue(p) /\ ty = "string">> ELSE <<"n/a", TRUE>>
    [] obf = "reverse" -> LET p == ParseCall1(cov, REVERSE_)  p2 == ParseCall1(cov, REVERSED_) IN
         IF p.ok THEN <<"reverse", val = Reverse(p.body) /\ ty = "string">>
         ELSE IF p2.ok THEN <<"reverse", val = Reverse(p2.body) /\ ty = "string">> ELSE <<"n/a", TRUE>>
    [] obf = "vba.reverse" -> LET p == ParseCall1(cov, STRREVERSE_) IN
         IF p.ok THEN <<"reverse", val = Reverse(p.body) /\ ty = "vba.string">> ELSE <<"n/a", TRUE>>
    [] obf = "vba.replace" -> LET p == ParseVbaReplace(cov) IN
         IF p.ok /\ p.a # <<>> THEN <<"replace", val = BytesReplace(p.x, p.a, p.b) /\ ty = "vba.string">> ELSE <<"n/a", TRUE>>
    [] obf = "replace" /\ ty = "string" -> LET p == ParseMethodReplace(cov) IN
         IF p.ok /\ p.a # <<>> THEN <<"replace", val = BytesReplace(p.x, p.a, p.b)>> ELSE <<"n/a", TRUE>>
    [] obf = "replace" /\ ty = "powershell.string" -> LET p == ParsePsReplace(cov) IN
         IF p.ok /\ p.a # <<>> THEN <<"replace", val = BytesReplace(p.x, p.a, p.b)>> ELSE <<"n/a", TRUE>>
    [] obf = "replace" /\ ty = "javascript.string" -> LET p == ParseJsReplace(cov) IN
         IF p.ok THEN <<"replace", val = BytesReplace(p.x, p.a, p.b)>> ELSE <<"n/a", TRUE>>
    [] OTHER -> <<"other", TRUE>>

\* ---- kind = "inst" ------------------------------------------------------------------------
Q(o) == IF o.dq THEN <<DQ>> ELSE <<SQ>>
Wrap2(name, o, inner) == name \o <<40>> \o Q(o) \o inner \o Q(o) \o <<41>>
LitOf(o, body) == Q(o) \o body \o Q(o)
\* the encoded text of payload p under encoder T.enc with options o, and the node it has to yield;
\* `dom` says whether the instance is inside the documented domain (else it is not judged)
Instance ==
  LET p == T.payload  o == T.opts  e == T.enc IN
  CASE e = "b64" -> [blob |-> B64Encode(p), ty |-> "", obf |-> "encoding.base64", val |-> p, dom |-> BareB64Accept(B64Encode(p))]
    [] e = "atob" -> [blob |-> Wrap2(<<97, 116, 111, 98>>, o, B64Encode(p)), ty |-> "javascript.string", obf |-> "encoding.base64", val |-> p, dom |-> p # <<>>]
    [] e = "Base64Decode" -> [blob |-> Wrap2(T.name, o, B64Encode(p)), ty |-> "vba.string", obf |-> "encoding.base64", val |-> p,
                              dom |-> p # <<>> /\ Lower(T.name) = Lower(<<66, 97, 115, 101, 54, 52, 68, 101, 99, 111, 100, 101>>)]
    [] e = "FromBase64String" -> [blob |-> T.prefix \o Wrap2(T.name, o, B64Encode(p)), ty |-> "powershell.bytes", obf |-> "encoding.base64", val |-> p,
                              dom |-> p # <<>> /\ Lower(T.name) = Lower(<<70, 114, 111, 109, 66, 97, 115, 101, 54, 52, 83, 116, 114, 105, 110, 103>>)]
    [] e = "hex" -> [blob |-> HexEncode(p, o.upper), ty |-> "", obf |-> "decoded.hexadecimal", val |-> p, dom |-> Len(p) >= 10]
    [] e = "FromHexString" -> [blob |-> T.prefix \o T.name \o <<40, SQ>> \o HexEncode(p, o.upper) \o <<SQ, 41>>, ty |-> "powershell.bytes",
                               obf |-> "encoding.hexidecimal", val |-> p, dom |-> Len(p) >= 10]
    [] e = "xmldec" -> [blob |-> XmlEncodeDec(p), ty |-> "", obf |-> "unescape.xml", val |-> p, dom |-> Len(p) >= 5]
    [] e = "xmlmix" -> [blob |-> Concat([i \in 1..Len(p) |->
                                   CASE T.mask[i] = 0 -> <<38, 35>> \o DecStr(p[i]) \o <<59>>
                                     [] T.mask[i] = 1 -> <<38, 35, 120, HexLow(p[i] \div 16), HexLow(p[i] % 16), 59>>
                                     [] T.mask[i] = 2 -> <<38, 35, 88, HexUp(p[i] \div 16), HexUp(p[i] % 16), 59>>
                                     [] OTHER -> <<38, 35>> \o (IF p[i] < 10 THEN <<48, 48>> ELSE IF p[i] < 100 THEN <<48>> ELSE <<>>) \o DecStr(p[i]) \o <<59>>]),
                        ty |-> "", obf |-> "unescape.xml", val |-> p, dom |-> Len(p) >= 5 /\ Len(T.mask) = Len(p)]
    [] e = "b64wrap" -> LET t == B64Encode(p)  w == o.width
                            nl == (Len(t) + w - 1) \div w
                            line(k) == SubSeq(t, (k - 1) * w + 1, IF k * w > Len(t) THEN Len(t) ELSE k * w)
                        IN [blob |-> Concat([k \in 1..nl |-> line(k) \o (IF k < nl THEN T.sep ELSE <<>>)]), ty |-> "", obf |-> "encoding.base64", val |-> p,
                            \* every line but the last has at least 4 characters; the last at least 2 besides its padding
                            dom |-> BareB64Accept(t) /\ w >= 4 /\ Len(line(nl)) >= 4]
    [] e = "xmlhex" -> [blob |-> XmlEncodeHex(p), ty |-> "", obf |-> "unescape.xml", val |-> p, dom |-> Len(p) >= 5]
    [] e = "chr" -> [blob |-> T.name \o <<40>> \o T.zeros \o DecStr(o.cp) \o <<41>>, ty |-> "string", obf |-> "function.chr", val |-> Utf8(o.cp),
                     dom |-> Encodable(o.cp) /\ Len(T.zeros) + Len(DecStr(o.cp)) <= 5 + Len(T.zeros) /\ o.cp <= 99999]
    [] e = "unescape" -> [blob |-> <<117, 110, 101, 115, 99, 97, 112, 101, 40, SQ>> \o T.escaped \o <<SQ, 41>>, ty |-> "string", obf |-> "function.unescape",
                          val |-> PercentDecode(T.escaped), dom |-> \A i \in 1..Len(T.escaped) : T.escaped[i] # SQ]
    [] e = "utf16" -> [blob |-> Utf16Encode(p), ty |-> "", obf |-> "codec.uft-16", val |-> Utf16ToUtf8(Utf16Encode(p)),
                       dom |-> Len(p) >= 7 /\ \A i \in 1..Len(p) : Utf16Char(p[i])]
    [] e = "utf16multi" -> LET runs == SplitAt(p, 0) IN
                       [blob |-> Utf16Encode(p), ty |-> "", obf |-> "codec.uft-16", val |-> Utf16ToUtf8(Utf16Encode(p)),
                        dom |-> Len(runs) >= 2 /\ \A k \in 1..Len(runs) : Len(runs[k]) >= 7 /\ \A i \in 1..Len(runs[k]) : Utf16Char(runs[k][i])]
    [] e = "concat" -> [blob |-> T.blob, ty |-> "string", obf |-> "concatenation", val |-> ConcatValue(ParseConcat(T.blob)),
                        dom |-> ConcatInDomain(ParseConcat(T.blob))]
    [] e = "reverse" -> LET q == ParseCall1(T.blob, T.name) IN
                        [blob |-> T.blob, ty |-> IF Lower(T.name) = STRREVERSE_ THEN "vba.string" ELSE "string",
                         obf |-> IF Lower(T.name) = STRREVERSE_ THEN "vba.reverse" ELSE "reverse", val |-> Reverse(q.body),
                         dom |-> q.ok /\ Lower(T.name) \in {REVERSE_, REVERSED_, STRREVERSE_}]
    [] e = "replace.method" -> LET q == ParseMethodReplace(T.blob) IN
                        [blob |-> T.blob, ty |-> "string", obf |-> "replace", val |-> BytesReplace(q.x, q.a, q.b), dom |-> q.ok /\ q.a # <<>>]
    [] e = "replace.vba" -> LET q == ParseVbaReplace(T.blob) IN
                        [blob |-> T.blob, ty |-> "vba.string", obf |-> "vba.replace", val |-> BytesReplace(q.x, q.a, q.b), dom |-> q.ok /\ q.a # <<>>]
    [] e = "replace.ps" -> LET q == ParsePsReplace(T.blob) IN
                        [blob |-> T.blob, ty |-> "powershell.string", obf |-> "replace", val |-> BytesReplace(q.x, q.a, q.b), dom |-> q.ok /\ q.a # <<>>]
    [] e = "replace.js" -> LET q == ParseJsReplace(T.blob) IN
                        [blob |-> T.blob, ty |-> "javascript.string", obf |-> "replace", val |-> BytesReplace(q.x, q.a, q.b), dom |-> q.ok]
InstVerdict ==
  LET x == Instance
      a == Len(T.pre)
      b == a + Len(x.blob)
      hit == \E i \in 1..Len(T.found) : LET f == T.found[i] IN
               f.ty = x.ty /\ f.obf = x.obf /\ f.val = x.val /\ f.s = a /\ f.e = b
  IN IF x.blob # T.blob THEN <<"machinery:blob", FALSE>>       \* the harness and the spec disagree on the encoding itself
     ELSE IF ~x.dom \/ x.val = <<>> THEN <<"n/a", TRUE>>      \* (the engine never reports an empty value)
     ELSE <<"found:" \o T.enc, hit>>

Verdict == IF T.kind = "node" THEN NodeVerdict ELSE InstVerdict
Init == tid \in 1..Len(Traces) /\ judged = FALSE
Judge == /\ ~judged
         /\ LET v == Verdict IN
            /\ (~v[2] => PrintT(<<"V", tid, v[1]>>))
            /\ (v[1] = "n/a" => PrintT(<<"V", tid, "n/a">>))
            /\ PrintT(<<"V", tid, IF v[2] THEN "ACCEPT" ELSE "REJECT">>)
         /\ judged' = TRUE /\ UNCHANGED tid
Spec == Init /\ [][Judge]_<<tid, judged>>
=============================================================================
