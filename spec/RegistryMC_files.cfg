CONSTANT Part = "files"
SPECIFICATION Spec
INVARIANT AnalyzersOK
INVARIANT SearchersOK
INVARIANT OnePerFile
PROPERTY Terminates
CHECK_DEADLOCK FALSE
