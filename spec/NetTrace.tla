------------------------------- MODULE NetTrace -------------------------------
(***************************************************************************)
(* Judging network / path nodes of real scans (C10, C12) and generated     *)
(* indicator instances (C11) against Net.tla.  One trace line:             *)
(*  kind "net":     a network.* node: ty, obf, cov, val, pty (parent type) *)
(*  kind "url":     a network.url node with its part children              *)
(*  kind "winpath": a windows path node with its children                  *)
(*  kind "inst":    an indicator instance between neutral delimiters and   *)
(*                  the nodes reported at its absolute span                *)
(***************************************************************************)
EXTENDS Net, Json, IOUtils
TldList == JsonDeserialize(IOEnv.TLD_FILE)
TldSet == {TldList[i] : i \in 1..Len(TldList)}
Fpos == JsonDeserialize(IOEnv.FPOS_FILE)          \* [root |-> <<byte strings>>, tld |-> <<byte strings>>]
RootF == {Fpos.root[i] : i \in 1..Len(Fpos.root)}
TldF == {Fpos.tld[i] : i \in 1..Len(Fpos.tld)}
IsFalsePositive(d) == FalsePositiveDomain(d, RootF, TldF)
Traces == ndJsonDeserialize(IOEnv.TRACE_FILE)
VARIABLES tid, judged
T == Traces[tid]

HTTP == <<104, 116, 116, 112>>  HTTPS == HTTP \o <<115>>  FTP == <<102, 116, 112>>
HasPct(s) == \E i \in 1..Len(s) : s[i] = PCT
FreeText == T.pty \notin {"network.url", "windows.path", "windows.unc.path", "windows.device.path"}

\* ---- C10 ---------------------------------------------------------------------------------
UrlShape(v) == LET sp == UrlSplit(v)  sch == Tup(Lower(Sl(v, sp.scheme)))  au == AuthSplit(v, sp.auth) IN
               sch \in {HTTP, HTTPS, FTP} /\ au.host[2] > au.host[1]
NetClauses ==
  CASE T.ty = "network.ip" -> (IF CanonicalQuad(T.val) THEN {} ELSE {"ip.canonical"})
                              \cup (IF FreeText /\ T.val # T.cov THEN {"ip.freetext"} ELSE {})
    [] T.ty = "network.domain" -> (IF DomainShape(T.val) THEN {} ELSE {"domain.shape"})
                                  \cup (IF FreeText /\ ~FreeDomain(T.val) THEN {"domain.freetext"} ELSE {})
    [] T.ty = "network.email" -> (IF EmailShape(T.val) THEN {} ELSE {"email.shape"})
    [] T.ty = "network.url" -> (IF UrlShape(T.val) THEN {} ELSE {"url.shape"})
                               \cup (IF T.val = NormalizePercent(T.cov) THEN {} ELSE {"url.normalised"})
                               \cup (IF (T.obf = "escape.percent") = (Len(T.val) < Len(T.cov)) /\ T.obf \in {"", "escape.percent"} THEN {} ELSE {"url.label"})
    [] OTHER -> {}

\* ---- C12: URL parts -------------------------------------------------------------------------
Kid(ty, val, obf, sp) == [ty |-> ty, val |-> val, obf |-> obf, s |-> sp[1], e |-> sp[2]]
Opt(cond, k) == IF cond THEN <<k>> ELSE <<>>
NonEmpty(sp) == sp[2] > sp[1]
UrlKids(v) ==
  LET sp == UrlSplit(v)
      st == Sl(v, sp.scheme)
      au == AuthSplit(v, sp.auth)
      h == Sl(v, au.host)
      ip == InetAton(h)
      ds == DotSegments(Sl(v, sp.path))
      hostKid == IF h = <<>> THEN <<>>
                 ELSE IF ip # <<-1>> THEN <<Kid("network.ip", QuadOf(ip), IF QuadOf(ip) # h THEN "ip_obfuscation" ELSE "", au.host)>>
                 ELSE IF DomainShape(h) THEN <<Kid("network.domain", h, "", au.host)>> ELSE <<>>
  IN Opt(st # <<>>, Kid("network.url.scheme", Tup(Lower(st)), IF st # Tup(Lower(st)) /\ st # Tup(Upper(st)) THEN "MixedCase" ELSE "", sp.scheme))
     \o (IF NonEmpty(sp.auth)
         THEN Opt(NonEmpty(au.user), Kid("network.url.username", PercentDecode(Sl(v, au.user)), "", au.user))
              \o Opt(NonEmpty(au.pass), Kid("network.url.password", PercentDecode(Sl(v, au.pass)), "", au.pass))
              \o hostKid
         ELSE <<>>)
     \o Opt(NonEmpty(sp.path), Kid("network.url.path", ds.val, IF ds.removed THEN "url.dotpath" ELSE "", sp.path))
     \o Opt(NonEmpty(sp.query), Kid("network.url.query", PercentDecode(Sl(v, sp.query)), "", sp.query))
     \o Opt(NonEmpty(sp.frag), Kid("network.url.fragment", PercentDecode(Sl(v, sp.frag)), "", sp.frag))
CoreK(ks) == [i \in 1..Len(ks) |-> [ty |-> ks[i].ty, val |-> ks[i].val, obf |-> ks[i].obf, s |-> ks[i].s, e |-> ks[i].e]]
\* outside the judged domain: IPv6 hosts, and hosts that still carry a percent-escape after normalisation
UrlDomain(v) == LET sp == UrlSplit(v)  h == Sl(v, AuthSplit(v, sp.auth).host) IN ~HasPct(h) /\ ~(\E i \in 1..Len(h) : h[i] = LBR \/ h[i] = RBR)
\* a bracketed (IPv6) host: how the address itself is normalised is outside the judged domain, every other part is not
Bracketed(v) == LET sp == UrlSplit(v)  h == Sl(v, AuthSplit(v, sp.auth).host) IN
                ~HasPct(h) /\ Len(h) >= 2 /\ h[1] = LBR /\ h[Len(h)] = RBR /\ ~(\E i \in 2..(Len(h) - 1) : h[i] = LBR \/ h[i] = RBR)
Judge2(got, exp) ==
       IF got = exp THEN {}
       ELSE IF Len(got) = Len(exp) /\ \A i \in 1..Len(got) : got[i].ty = exp[i].ty
            THEN (IF \E i \in 1..Len(got) : got[i].s # exp[i].s \/ got[i].e # exp[i].e THEN {"url.part.span"} ELSE {})
                 \cup (IF \E i \in 1..Len(got) : got[i].val # exp[i].val THEN {"url.part.value"} ELSE {})
                 \cup (IF \E i \in 1..Len(got) : got[i].obf # exp[i].obf THEN {"url.part.label"} ELSE {})
            ELSE {"url.parts"}
UrlClauses ==
  IF Bracketed(T.val)
  THEN LET hostSp == AuthSplit(T.val, UrlSplit(T.val).auth).host
           notHost(k) == ~(k.ty \in {"network.ip", "network.ipv6", "network.domain"} /\ k.s >= hostSp[1] /\ k.e <= hostSp[2])
           hostKids == SelectSeq(CoreK(T.kids), LAMBDA k : ~notHost(k))
       IN Judge2(SelectSeq(CoreK(T.kids), notHost), SelectSeq(UrlKids(T.val), notHost))
          \* the address itself: labelled exactly when its value is not the text between the brackets
          \cup (IF \E i \in 1..Len(hostKids) : (hostKids[i].obf = "ip_obfuscation") # (hostKids[i].val # Sl(T.val, <<hostKids[i].s, hostKids[i].e>>))
                THEN {"url.part.label"} ELSE {})
  ELSE IF ~UrlDomain(T.val) THEN {"n/a"}
  ELSE Judge2(CoreK(T.kids), UrlKids(T.val))

\* ---- C12: Windows paths -----------------------------------------------------------------------
EXE == <<46, 101, 120, 101>>  DLL == <<46, 100, 108, 108>>
WinClauses ==
  LET v == T.val  cov == T.cov
      segs == SplitAt(v, BSL)
      name == segs[Len(segs)]
      isDev == Len(v) >= 3 /\ v[1] = BSL /\ v[2] = BSL /\ (v[3] = DOT \/ v[3] = QM)
      isUnc == ~isDev /\ Len(v) >= 2 /\ v[1] = BSL /\ v[2] = BSL
      ty == IF isDev THEN "windows.device.path" ELSE IF isUnc THEN "windows.unc.path" ELSE "windows.path"
      hostOff == IF isDev THEN 8 ELSE 2
      hostSeg == IF isDev THEN (IF Len(segs) >= 5 /\ Tup(Upper(segs[4])) = <<85, 78, 67>> THEN segs[5] ELSE <<>>)
                 ELSE IF isUnc /\ Len(segs) >= 3 THEN segs[3] ELSE <<>>
      host == LET ats == {i \in 1..Len(hostSeg) : hostSeg[i] = ATSIGN} IN
              IF ats = {} THEN hostSeg ELSE SubSeq(hostSeg, 1, (CHOOSE i \in ats : \A j \in ats : i <= j) - 1)
      ip == InetAton(host)
      hostKid == IF host = <<>> THEN <<>>
                 ELSE IF ip # <<-1>> THEN <<Kid("network.ip", QuadOf(ip), IF QuadOf(ip) # host THEN "ip_obfuscation" ELSE "", <<hostOff, hostOff + Len(host)>>)>>
                 ELSE IF DomainShape(host) THEN <<Kid("network.domain", host, "", <<hostOff, hostOff + Len(host)>>)>> ELSE <<>>
      dot == LastDot(name)
      hasExt == dot > 1 /\ \E i \in 1..(dot - 1) : name[i] # DOT            \* ntpath.splitext: a leading dot run is not an extension
      ext == Tup(Lower(SubSeq(name, dot, Len(name))))
      nameKid == IF hasExt THEN <<Kid(IF ext = EXE THEN "executable.filename" ELSE IF ext = DLL THEN "executable.library.filename" ELSE "filename",
                                      name, "", <<Len(v) - Len(name), Len(v)>>)>> ELSE <<>>
  IN (IF v = WinNorm(cov) THEN {} ELSE {"win.value"})
     \cup (IF (T.obf = "windows.dotpath") = (Len(v) < Len(cov)) /\ T.obf \in {"", "windows.dotpath"} THEN {} ELSE {"win.label"})
     \cup (IF T.ty = ty THEN {} ELSE {"win.type"})
     \cup (IF CoreK(T.kids) = hostKid \o nameKid THEN {} ELSE {"win.parts"})

\* ---- C11: indicator instances -------------------------------------------------------------------
PATHTY == "path"
InstExpect ==      \* [dom, ty, val] for the blob
  LET b == T.blob  w == T.what IN
  CASE w = "ip" -> LET ps == SplitAt(b, DOT) IN
         [dom |-> CanonicalQuad(b) /\ ~(\A i \in 1..4 : DecVal(ps[i]) = 0) /\ DecVal(ps[4]) \notin {0, 255}
                  /\ IpLeftBoundary(T.pre) /\ ~IpContextSuppressed(T.pre),          \* documented section / version number contexts (Net.tla)
          tys |-> {"network.ip"}, val |-> b]
    [] w = "domain" -> [dom |-> FreeDomain(b) /\ b[1] # DOT /\ ~(\E i \in 1..(Len(b) - 1) : b[i] = DOT /\ b[i+1] = DOT) /\ T.neutral
                                /\ ~IsFalsePositive(b),          \* the documented false-positive shapes, rule for rule (Net.tla)
                        tys |-> {"network.domain"}, val |-> b]
    [] w = "url" -> [dom |-> UrlShape(b) /\ T.neutral, tys |-> {"network.url"}, val |-> NormalizePercent(b)]
    [] w = "email" -> [dom |-> EmailShape(b) /\ T.neutral, tys |-> {"network.email"}, val |-> b]
    [] w = "winpath" -> [dom |-> T.neutral, tys |-> {"windows.path", "windows.unc.path", "windows.device.path"}, val |-> WinNorm(b)]
    [] w = "path" -> [dom |-> T.neutral, tys |-> {"path"}, val |-> b]
    [] w = "exe" -> [dom |-> T.neutral, tys |-> {"executable.filename"}, val |-> b]
    [] w = "dll" -> [dom |-> T.neutral, tys |-> {"executable.filename", "executable.library.filename"}, val |-> b]
    [] w = "createobject" -> [dom |-> T.neutral, tys |-> {"vba.function.createobject"}, val |-> b]
    [] w = "pe" -> [dom |-> T.neutral, tys |-> {"pe_file"}, val |-> b]
InstClauses ==
  LET x == InstExpect  a == Len(T.pre)  b == a + Len(T.blob) IN
  IF ~x.dom THEN {"n/a"} \cup (IF T.what = "domain" /\ FreeDomain(T.blob) /\ IsFalsePositive(T.blob)
                                   /\ \E i \in 1..Len(T.found) : T.found[i].ty = "network.domain" /\ T.found[i].s = a /\ T.found[i].e = b
                                THEN {"note.falsepositive.reported"} ELSE {})
                          \cup (IF T.what = "ip" /\ CanonicalQuad(T.blob) /\ IpLeftBoundary(T.pre) /\ IpContextSuppressed(T.pre)
                                   /\ \E i \in 1..Len(T.found) : T.found[i].ty = "network.ip" /\ T.found[i].s = a /\ T.found[i].e = b
                                THEN {"note.falsepositive.reported"} ELSE {})       \* beyond the listed properties: a suppressed shape was reported
  ELSE IF \E i \in 1..Len(T.found) : T.found[i].ty \in x.tys /\ T.found[i].val = x.val /\ T.found[i].s = a /\ T.found[i].e = b
       THEN {} ELSE {"found:" \o T.what}

Clauses == CASE T.kind = "net" -> NetClauses [] T.kind = "url" -> UrlClauses [] T.kind = "winpath" -> WinClauses [] T.kind = "inst" -> InstClauses
Init == tid \in 1..Len(Traces) /\ judged = FALSE
Judge == /\ ~judged
         /\ LET cl == Clauses IN
            /\ \A c \in cl : PrintT(<<"V", tid, c>>)
            /\ PrintT(<<"V", tid, IF cl \subseteq {"n/a"} THEN "ACCEPT" ELSE "REJECT">>)
         /\ judged' = TRUE /\ UNCHANGED tid
Spec == Init /\ [][Judge]_<<tid, judged>>
=============================================================================
