------------------------------ MODULE TreeTrace ------------------------------
(***************************************************************************)
(* Conformance of the implementation's read-only views to Tree.tla.        *)
(* One trace line = one tree (projected from real Node objects by walking  *)
(* children lists) together with what the implementation returned for it:  *)
(* flatten(), squash_replace(), string_summary(), list(root) as paths,     *)
(* json.loads(tree_to_json()), json_to_tree() projected back, and the      *)
(* outcome of == against single-field mutants.  For CLI sessions the       *)
(* views are what the command line printed.  TLC computes every expected   *)
(* value from the specification operators and names the failing clause.    *)
(***************************************************************************)
EXTENDS Tree, Json, IOUtils

Traces == ndJsonDeserialize(IOEnv.TRACE_FILE)
VARIABLES tid, judged
T == Traces[tid]

Has(f) == f \in DOMAIN T

Clauses ==
  (IF Has("flatten") /\ Ordered(T.tree) /\ T.flatten # Flatten(T.tree) THEN {"flatten"} ELSE {})
  \cup (IF Has("flatten") /\ Unchanged(T.tree) /\ T.flatten # T.tree.val THEN {"unchanged"} ELSE {})
  \cup (IF Has("squash") /\ Ordered(T.tree) /\ NoSubstOverlap(T.tree) /\ T.squash # Flatten(T.tree) THEN {"replace"} ELSE {})      \* (spans in bounds and ordered, as for C19)
  \cup (IF Has("squash") /\ T.squash # Squash(T.tree.val, T.tree.kids) THEN {"squash"} ELSE {})
  \cup (IF Has("summary") /\ T.summary # Summary(T.tree) THEN {"summary"} ELSE {})
  \cup (IF Has("iter") /\ T.iter # PrePaths(T.tree, <<>>) THEN {"iter"} ELSE {})
  \cup (IF Has("doc") /\ T.doc # JsonDoc(T.tree) THEN {"doc"} ELSE {})
  \cup (IF Has("back") /\ (T.back # T.tree \/ ~T.backLinks) THEN {"back"} ELSE {})
  \cup (IF Has("eqs") /\ \E i \in 1..Len(T.eqs) :
              \/ T.eqs[i].eq # (T.eqs[i].m = T.tree)
              \/ T.eqs[i].jeq # (JsonDoc(T.eqs[i].m) = JsonDoc(T.tree)) THEN {"eq"} ELSE {})
  \cup (IF Has("failed") /\ T.failed # <<>> THEN {"raised"} ELSE {})
  \* beyond the listed properties: the rest of the Node / query API
  \cup (IF Has("orig") /\ T.orig # Originals(T.tree) THEN {"api.original"} ELSE {})
  \cup (IF Has("shiftOne") /\ (T.shiftOne # ShiftFirst(T.tree, T.shiftK) \/ T.shiftAll # ShiftAll(T.tree, T.shiftK) \/ ~T.shiftSame)
        THEN {"api.shift"} ELSE {})
  \cup (IF Has("invert") /\ T.invert # InvertPaths(T.tree) THEN {"api.invert"} ELSE {})
  \cup (IF Has("obfcounts") /\ {<<T.obfcounts[i][1], T.obfcounts[i][2]>> : i \in 1..Len(T.obfcounts)} # ObfCountsAsCoded(T.tree.kids)
        THEN {"api.obfcounts"} ELSE {})
  \cup (IF Has("obfcounts") /\ ObfCountsAsCoded(T.tree.kids) # ObfCountsIntended(T.tree.kids) THEN {"note.obfcounts.percharacter"} ELSE {})

Init == tid \in 1..Len(Traces) /\ judged = FALSE
Judge == /\ ~judged
         /\ LET cl == Clauses IN
            /\ \A c \in cl : PrintT(<<"V", tid, c>>)
            /\ PrintT(<<"V", tid, IF cl = {} THEN "ACCEPT" ELSE "REJECT">>)
         /\ judged' = TRUE
         /\ UNCHANGED tid
Spec == Init /\ [][Judge]_<<tid, judged>>
=============================================================================
