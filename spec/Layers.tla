-------------------------------- MODULE Layers --------------------------------
(***************************************************************************)
(* C02: a payload wrapped in a stack of supported encodings and placed in  *)
(* neutral text.  Each layer kind has an encoder (the right inverse of the *)
(* decoding relations of Codec.tla / StringOps.tla / Shell.tla), a domain  *)
(* predicate on the text it wraps, the type and label of the node it must  *)
(* yield, and the offset at which the wrapped text sits in that node's     *)
(* value.  From a (stack, payload, prefix, suffix) proposal TLC computes    *)
(* the input bytes, whether every layer is inside its documented domain,   *)
(* the chain of nodes the scan tree has to contain (outermost first: type, *)
(* label, exact value, exact span) and the flattened text.                 *)
(***************************************************************************)
EXTENDS Codec, StringOps, Json, IOUtils

Traces == ndJsonDeserialize(IOEnv.TRACE_FILE)
VARIABLES tid, judged
T == Traces[tid]

Str(s) == s            \* byte strings are written as tuples below
ATOB == <<97, 116, 111, 98>>
B64DEC == <<66, 97, 115, 101, 54, 52, 68, 101, 99, 111, 100, 101>>
FROMB64 == <<70, 114, 111, 109, 66, 97, 115, 101, 54, 52, 83, 116, 114, 105, 110, 103>>
FROMHEX == <<70, 114, 111, 109, 72, 101, 120, 83, 116, 114, 105, 110, 103>>
UNESCAPE == <<117, 110, 101, 115, 99, 97, 112, 101>>
REPLACEM == <<46, 114, 101, 112, 108, 97, 99, 101, 40>>          \* .replace(
MARK2 == <<35, 64>>                                              \* the marker "#@" that the replace layers remove
CMDC == <<99, 109, 100, 32, 47, 99, 32>>                         \* "cmd /c "
Call(name, q, inner) == name \o <<40, q>> \o inner \o <<q, 41>>
PctAll(x) == Concat([i \in 1..Len(x) |-> <<37, HexUp(x[i] \div 16), HexUp(x[i] % 16)>>])
CommaDec(x) == Concat([i \in 1..Len(x) |-> (IF i = 1 THEN <<>> ELSE <<44>>) \o DecStr(x[i])])
CleanLit(x) == \A i \in 1..Len(x) : x[i] \notin {SQ, DQ, BT, BS}
Half(x) == Len(x) \div 2
WithMark(x) == SubSeq(x, 1, Half(x)) \o MARK2 \o SubSeq(x, Half(x) + 1, Len(x))
NoMark(x) == Find(x, MARK2, 0) < 0 /\ (x = <<>> \/ (x[Len(x)] # 35 /\ x[1] # 64)) /\ ~(Half(x) > 0 /\ x[Half(x)] = 35) /\ ~(Half(x) < Len(x) /\ x[Half(x) + 1] = 64)
Ascii(x) == \A i \in 1..Len(x) : x[i] < 128

\* base64 text broken into lines of w characters (the last one shorter), each but the last followed by the line end nl
WrapLines(t, w, nl) == LET n == (Len(t) + w - 1) \div w IN
                       Concat([i \in 1..n |-> SubSeq(t, (i - 1) * w + 1, IF i * w < Len(t) THEN i * w ELSE Len(t)) \o (IF i < n THEN nl ELSE <<>>)])
\* ... is found as one unit when the last line keeps at least two characters before the padding
WrapDom(t, w) == LET last == IF Len(t) % w = 0 THEN w ELSE Len(t) % w
                     pad == Cardinality({i \in 1..Len(t) : t[i] = 61})
                 IN BareB64Accept(t) /\ last - pad >= 2
B64Wrapped(x, w, nl) == [enc |-> WrapLines(B64Encode(x), w, nl), ty |-> "", obf |-> "encoding.base64", val |-> x, off |-> 0, dom |-> WrapDom(B64Encode(x), w)]

\* [enc: the encoded text, ty, obf, val: the node's value, off: where x sits in val, dom]
Layer(kind, x) ==
  CASE kind = "b64w30" -> B64Wrapped(x, 30, <<13, 10>>)
    [] kind = "b64w50" -> B64Wrapped(x, 50, <<10>>)
    [] kind = "b64w76" -> B64Wrapped(x, 76, <<13, 10>>)
    [] kind = "b64e32" -> B64Wrapped(x, 32, <<38, 35, 49, 51, 59, 38, 35, 49, 48, 59>>)              \* line ends written as &#13;&#10;
    [] kind = "b64e64" -> B64Wrapped(x, 64, <<38, 35, 120, 68, 59, 38, 35, 49, 48, 59>>)             \* ... as &#xD;&#10;
    [] kind = "b64" -> [enc |-> B64Encode(x), ty |-> "", obf |-> "encoding.base64", val |-> x, off |-> 0, dom |-> BareB64Accept(B64Encode(x))]
    [] kind = "atob" -> [enc |-> Call(ATOB, SQ, B64Encode(x)), ty |-> "javascript.string", obf |-> "encoding.base64", val |-> x, off |-> 0, dom |-> x # <<>>]
    [] kind = "Base64Decode" -> [enc |-> Call(B64DEC, DQ, B64Encode(x)), ty |-> "vba.string", obf |-> "encoding.base64", val |-> x, off |-> 0, dom |-> x # <<>>]
    [] kind = "FromBase64String" -> [enc |-> Call(FROMB64, SQ, B64Encode(x)), ty |-> "powershell.bytes", obf |-> "encoding.base64", val |-> x, off |-> 0, dom |-> x # <<>>]
    [] kind = "hex" -> [enc |-> HexEncode(x, FALSE), ty |-> "", obf |-> "decoded.hexadecimal", val |-> x, off |-> 0, dom |-> Len(x) >= 10]
    [] kind = "hexU" -> [enc |-> HexEncode(x, TRUE), ty |-> "", obf |-> "decoded.hexadecimal", val |-> x, off |-> 0, dom |-> Len(x) >= 10]
    [] kind = "FromHexString" -> [enc |-> Call(FROMHEX, SQ, HexEncode(x, FALSE)), ty |-> "powershell.bytes", obf |-> "encoding.hexidecimal", val |-> x, off |-> 0, dom |-> Len(x) >= 10]
    [] kind = "utf16" -> [enc |-> Utf16Encode(x), ty |-> "", obf |-> "codec.uft-16", val |-> x, off |-> 0,
                          dom |-> Len(x) >= 7 /\ Ascii(x) /\ \A i \in 1..Len(x) : Utf16Char(x[i])]
    [] kind = "xmldec" -> [enc |-> XmlEncodeDec(x), ty |-> "", obf |-> "unescape.xml", val |-> x, off |-> 0, dom |-> Len(x) >= 5]
    [] kind = "xmlhexU" -> [enc |-> Concat([i \in 1..Len(x) |-> <<38, 35, 88, HexUp(x[i] \div 16), HexUp(x[i] % 16), 59>>]), ty |-> "", obf |-> "unescape.xml",
                            val |-> x, off |-> 0, dom |-> Len(x) >= 5]
    [] kind = "xmlhex" -> [enc |-> XmlEncodeHex(x), ty |-> "", obf |-> "unescape.xml", val |-> x, off |-> 0, dom |-> Len(x) >= 5]
    [] kind = "unescape" -> [enc |-> Call(UNESCAPE, SQ, PctAll(x)), ty |-> "string", obf |-> "function.unescape", val |-> x, off |-> 0, dom |-> x # <<>>]
    [] kind = "unescapeP" ->      \* only the bytes that must be escaped are: % ' and everything outside printable ASCII; + / = and the rest stay literal
         [enc |-> Call(UNESCAPE, SQ, Concat([i \in 1..Len(x) |-> IF x[i] = 37 \/ x[i] = SQ \/ x[i] < 32 \/ x[i] > 126
                                                                   THEN <<37, HexUp(x[i] \div 16), HexUp(x[i] % 16)>> ELSE <<x[i]>>])),
          ty |-> "string", obf |-> "function.unescape", val |-> x, off |-> 0, dom |-> x # <<>>]
    [] kind = "concat" -> [enc |-> <<SQ>> \o SubSeq(x, 1, Half(x)) \o <<SQ, 32, 43, 32, DQ>> \o SubSeq(x, Half(x) + 1, Len(x)) \o <<DQ>>,
                           ty |-> "string", obf |-> "concatenation", val |-> x, off |-> 0,
                           dom |-> CleanLit(x) /\ Len(x) >= 2 /\ ~BareOp(SubSeq(x, 1, Half(x))) /\ ~BareOp(SubSeq(x, Half(x) + 1, Len(x)))]
    [] kind = "reverse" -> [enc |-> Call(REVERSE_, SQ, Reverse(x)), ty |-> "string", obf |-> "reverse", val |-> x, off |-> 0, dom |-> CleanLit(x) /\ x # <<>>]
    [] kind = "StrReverse" -> [enc |-> Call(<<83, 116, 114, 82, 101, 118, 101, 114, 115, 101>>, DQ, Reverse(x)), ty |-> "vba.string", obf |-> "vba.reverse",
                               val |-> x, off |-> 0, dom |-> CleanLit(x) /\ x # <<>>]
    [] kind = "replace.method" -> [enc |-> <<DQ>> \o WithMark(x) \o <<DQ>> \o REPLACEM \o <<SQ>> \o MARK2 \o <<SQ, 44, SQ, SQ, 41>>,
                                   ty |-> "string", obf |-> "replace", val |-> x, off |-> 0, dom |-> CleanLit(x) /\ NoMark(x) /\ x # <<>>]
    [] kind = "replace.vba" -> [enc |-> <<82, 101, 112, 108, 97, 99, 101, 40, DQ>> \o WithMark(x) \o <<DQ, 44, 32, DQ>> \o MARK2 \o <<DQ, 44, 32, DQ, DQ, 41>>,
                                ty |-> "vba.string", obf |-> "vba.replace", val |-> x, off |-> 0, dom |-> CleanLit(x) /\ NoMark(x) /\ x # <<>>]
    [] kind = "replace.ps" -> [enc |-> <<SQ>> \o WithMark(x) \o <<SQ, 32, 45>> \o REPLACE_ \o <<32, SQ>> \o MARK2 \o <<SQ, 44, SQ, SQ>>,
                               ty |-> "powershell.string", obf |-> "replace", val |-> x, off |-> 0, dom |-> CleanLit(x) /\ NoMark(x) /\ x # <<>>]
    [] kind = "replace.js" -> [enc |-> <<DQ>> \o WithMark(x) \o <<DQ>> \o REPLACEM \o <<47>> \o MARK2 \o <<47, 103, 44, DQ, DQ, 41>>,
                               ty |-> "javascript.string", obf |-> "replace", val |-> x, off |-> 0, dom |-> CleanLit(x) /\ NoMark(x) /\ x # <<>>]
    [] kind = "caret" -> [enc |-> <<99, 94, 109, 100, 32, 47, 99, 32>> \o x, ty |-> "shell.cmd", obf |-> "unescape.shell.carets", val |-> CMDC \o x, off |-> 7,
                          dom |-> \A i \in 1..Len(x) : x[i] \notin {94, 0, 41, 40, 13}]
    [] kind = "psbytesM" -> [enc |-> Concat([i \in 1..Len(x) |-> (IF i = 1 THEN <<>> ELSE <<44>>)       \* hexadecimal and decimal elements alternate
                                        \o (IF i % 2 = 0 THEN <<48, 120, HexLow(x[i] \div 16), HexLow(x[i] % 16)>> ELSE DecStr(x[i]))]),
                             ty |-> "powershell.bytes", obf |-> "", val |-> x, off |-> 0, dom |-> Len(x) >= 501]
    [] kind = "psbytesZ" -> [enc |-> Concat([i \in 1..Len(x) |-> (IF i = 1 THEN <<>> ELSE <<44, 32>>)
                                        \o (IF x[i] < 10 THEN <<48, 48>> ELSE IF x[i] < 100 THEN <<48>> ELSE <<>>) \o DecStr(x[i])]),
                             ty |-> "powershell.bytes", obf |-> "", val |-> x, off |-> 0, dom |-> Len(x) >= 501]
    [] kind = "psbytes" -> [enc |-> CommaDec(x), ty |-> "powershell.bytes", obf |-> "", val |-> x, off |-> 0, dom |-> Len(x) >= 501]

\* The layer records are computed once per case, when the case is selected (they are long byte strings; recomputing
\* them at every use made a single case take minutes): LS[i] = Layer(stack[i], text wrapped by layers 1..i-1), layer 1 innermost
TR(t) == Traces[t]
BuildLayers(t) ==
  LET RECURSIVE Build(_, _, _)
      Build(i, x, acc) == IF i > Len(TR(t).stack) THEN acc
                          ELSE LET l == Layer(TR(t).stack[i], x) IN Build(i + 1, l.enc, Append(acc, l))
  IN Build(1, TR(t).payload, <<>>)
VARIABLE LS
H == Len(T.stack)
LayerAt(i) == LS[i]
TextAfter(i) == IF i = 0 THEN T.payload ELSE LS[i].enc
InDomain == \A i \in 1..H : LayerAt(i).dom
Input == T.pre \o TextAfter(H) \o T.suf

\* the chain of nodes, as a predicate on an observed (nested) node
RECURSIVE Match(_, _)
Match(n, j) ==
  LET L == LayerAt(j) IN
  /\ n.ty = L.ty /\ n.obf = L.obf /\ n.val = L.val
  /\ IF j = 1
     THEN \A k \in 1..Len(T.indicators) :
            \E c \in 1..Len(n.kids) : n.kids[c].ty = T.indicators[k].ty /\ n.kids[c].val = T.indicators[k].val
     ELSE \E c \in 1..Len(n.kids) :
            /\ n.kids[c].s = L.off /\ n.kids[c].e = L.off + Len(TextAfter(j - 1))
            /\ Match(n.kids[c], j - 1)
ChainFound == \E f \in 1..Len(T.found) :
                /\ T.found[f].s = Len(T.pre) /\ T.found[f].e = Len(T.pre) + Len(TextAfter(H))
                /\ Match(T.found[f], H)

\* flattening: the neutral text with the payload substituted, string-typed results re-quoted at every level
IsStringTy(ty) == ty \in {"string", "vba.string", "javascript.string", "powershell.string"}
Q2(ty, x) == IF IsStringTy(ty) THEN <<DQ>> \o x \o <<DQ>> ELSE x
RECURSIVE FlatOf(_)
FlatOf(j) == LET L == LayerAt(j) IN
             IF j = 1 THEN L.val
             ELSE SubSeq(L.val, 1, L.off) \o Q2(LayerAt(j - 1).ty, FlatOf(j - 1))
ExpectedFlat == T.pre \o Q2(LayerAt(H).ty, FlatOf(H)) \o T.suf

Clauses ==
  IF Input # T.input THEN {"machinery:input"}
  ELSE IF ~InDomain THEN {"n/a"}
  ELSE (IF T.raised # "" THEN {"raised"} ELSE {})
       \cup (IF T.raised = "" /\ ~ChainFound THEN {"chain"} ELSE {})
       \cup (IF T.raised = "" /\ ChainFound /\ T.flat # ExpectedFlat THEN {"flatten"} ELSE {})
Init == tid \in 1..Len(Traces) /\ judged = FALSE /\ LS = <<>>
Prepare == LS = <<>> /\ ~judged /\ LS' = BuildLayers(tid) /\ UNCHANGED <<tid, judged>>       \* (an action, so that the workers share the cases)
Judge == /\ ~judged /\ LS # <<>>
         /\ LET cl == Clauses IN
            /\ \A c \in cl : PrintT(<<"V", tid, c>>)
            /\ PrintT(<<"V", tid, IF cl \subseteq {"n/a"} THEN "ACCEPT" ELSE "REJECT">>)
         /\ judged' = TRUE /\ UNCHANGED <<tid, LS>>
Spec == Init /\ [][Prepare \/ Judge]_<<tid, judged, LS>>
=============================================================================
