CONSTANTS
 L0 = 3
 L1 = 1
 N0 = 3
 N1 = 0
 Ks = {2}
 Types = {"x"}
 Kinds = {"slice", "leaf"}
 Types1 = {"x"}
 Kinds1 = {"leaf"}
 Variant = "asis"
 WK <- GenK
 WTexts <- GenTexts
 WHits <- GenHits
 NWorlds <- GenN
SPECIFICATION Spec
INVARIANT Laminar
INVARIANT NoDoubleReport
INVARIANT Conforms
CHECK_DEADLOCK FALSE
