------------------------------- MODULE Helpers -------------------------------
(***************************************************************************)
(* Small hand-written loops outside the big decoders:                      *)
(*  - vba.get_closing_brace (the balancing parenthesis of CreateObject(,   *)
(*    C11): machine (index, balance) vs the declarative spec;              *)
(*  - base64.pad_base64 (documented repair of a wrong-length base64 text). *)
(* HelpersMC checks the machine against the spec over every string up to   *)
(* MaxLen over {( ) x}; HelpersTrace judges the real functions.            *)
(***************************************************************************)
EXTENDS Bytes
LP == 40  RP == 41
\* depth of the text data[start+1 .. i] (1-based i), starting from one open parenthesis
Depth(data, start, i) == 1 + Cardinality({j \in (start + 1)..i : data[j] = LP}) - Cardinality({j \in (start + 1)..i : data[j] = RP})
\* index just after the parenthesis that balances the one opened before `start` (0-based start), or -1
ClosingBrace(data, start) ==
  LET closes == {i \in (start + 1)..Len(data) : Depth(data, start, i) = 0}
  IN IF closes = {} THEN -1 ELSE CHOOSE i \in closes : \A j \in closes : i <= j
\* pad_base64: a multiple of 4 is unchanged; 1 short of one loses its last character; otherwise '=' is appended
PadBase64(b) == LET r == Len(b) % 4 IN
                IF r = 0 THEN b ELSE IF r = 1 THEN SubSeq(b, 1, Len(b) - 1)
                ELSE b \o [i \in 1..(4 - r) |-> 61]
=============================================================================
