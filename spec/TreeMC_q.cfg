CONSTANTS
 RootVal <- RV_abc
 KidVals <- KV_q
 Types <- TY_q
 GVals <- KV_q
 GTypes <- TY_0
 MaxKids = 2
 MaxGrand = 1
SPECIFICATION Spec
INVARIANT Refines
INVARIANT UnchangedId
INVARIANT SquashAgrees
INVARIANT RoundTrip
INVARIANT IterOnce
INVARIANT Injective
PROPERTY Terminates
CHECK_DEADLOCK FALSE
