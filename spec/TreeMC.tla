------------------------------- MODULE TreeMC -------------------------------
(***************************************************************************)
(* Bounded universe of trees and the code-shaped flatten loop              *)
(* (node.py:39-60: one action per child, one integer of state `offset`).   *)
(* TLC checks, for every tree of the universe:                             *)
(*   Refines        the loop's output = Flatten (the sentence of C19)      *)
(*   UnchangedId    nothing differs => flatten returns the value           *)
(*   SquashAgrees   no two substituted results overlap => --replace output *)
(*                  = flatten                                              *)
(*   RoundTrip      FromDoc(JsonDoc(t)) = t                                *)
(*   Injective      a difference in any field of any node changes JsonDoc  *)
(*   IterOnce       pre-order visits every non-root node exactly once      *)
(***************************************************************************)
EXTENDS Tree

CONSTANTS RootVal,      \* value of the root
          KidVals,      \* values a child may carry besides the text it covers
          Types,        \* label byte strings
          GVals, GTypes, \* the same two for grandchildren
          MaxKids,      \* children of the root
          MaxGrand      \* children of a child

\* named constant values for the configuration files (cfg syntax has no tuples)
RV_abc   == <<97, 98, 99>>                         \* "abc"
RV_abcd  == <<97, 98, 99, 100>>
RV_aa    == <<97, 97>>
KV_q     == {<<81>>}                               \* "Q"
KV_q2    == {<<81>>, <<97, 98>>}                   \* "Q", "ab"
TY_0     == {<<>>}
KV_t     == {<<81>>, <<97, 98>>, <<>>}
TY_q     == {<<>>, <<120, 115, 116, 114, 105, 110, 103>>}        \* "", "xstring"
TY_t     == {<<>>, <<115, 116, 114, 105, 110, 103>>, <<115, 116, 114, 105, 110, 103, 115>>}   \* "", "string", "strings"

Spans(len) == {sp \in (0..len) \X (0..len) : sp[1] <= sp[2]}
Leafs(pval, vals, types) ==
  UNION { { [ty |-> ty, obf |-> <<>>, val |-> v, s |-> sp[1], e |-> sp[2], kids |-> <<>>] :
            ty \in types, v \in vals \cup {SubSeq(pval, sp[1] + 1, sp[2])} } :
          sp \in Spans(Len(pval)) }
\* (written with \cup, not UNION: TLC's UNION tests membership linearly, which is quadratic on large sets)
OrderedSeqs(S, n) == {<<>>} \cup (IF n >= 1 THEN {<<a>> : a \in S} ELSE {})
                            \cup (IF n >= 2 THEN {pp \in S \X S : pp[1].s <= pp[2].s} ELSE {})
                            \cup (IF n >= 3 THEN {pp \in S \X S \X S : pp[1].s <= pp[2].s /\ pp[2].s <= pp[3].s} ELSE {})
Mids(pval) == UNION { { [l EXCEPT !.kids = g] : g \in OrderedSeqs(Leafs(l.val, GVals, GTypes), MaxGrand) } :
                      l \in Leafs(pval, KidVals, Types) }
TreeSet == { [ty |-> <<>>, obf |-> <<>>, val |-> RootVal, s |-> 0, e |-> Len(RootVal), kids |-> ks] :
             ks \in OrderedSeqs(Mids(RootVal), MaxKids) }
Trees == SetToSeq(TreeSet)

VARIABLES tid, k, off, out, pc
vars == <<tid, k, off, out, pc>>
N == Trees[tid]

Init == tid \in 1..Len(Trees) /\ k = 1 /\ off = 0 /\ out = <<>> /\ pc = "loop"

Step ==                                              \* node.py:49-58, one child
  /\ pc = "loop" /\ k <= Len(N.kids)
  /\ LET c == N.kids[k] IN
     IF c.s < off THEN UNCHANGED <<off, out>>         \* :50-51 only take the first of overlapping values
     ELSE LET d == Flatten(c) IN                      \* :52 (recursion: the child's own flattening)
          IF d # PySlice(N.val, c.s, c.e)             \* :53
          THEN /\ out' = out \o PySlice(N.val, off, c.s) \o Wrap(c, d)      \* :54-57
               /\ off' = c.e                          \* :58
          ELSE UNCHANGED <<off, out>>
  /\ k' = k + 1
  /\ UNCHANGED <<tid, pc>>
Finish ==                                            \* :59-60
  /\ pc = "loop" /\ k > Len(N.kids)
  /\ out' = out \o PyFrom(N.val, off)
  /\ pc' = "done"
  /\ UNCHANGED <<tid, k, off>>
Next == Step \/ Finish
Spec == Init /\ [][Next]_vars /\ WF_vars(Next)

Refines      == pc = "done" => out = Flatten(N)
UnchangedId  == pc = "done" => (Unchanged(N) => out = N.val)
SquashAgrees == pc = "done" => (NoSubstOverlap(N) => Squash(N.val, N.kids) = out)
RoundTrip    == pc = "done" => FromDoc(JsonDoc(N)) = N
IterOnce     == pc = "done" => LET ps == PrePaths(N, <<>>) IN
                   /\ \A i, j \in 1..Len(ps) : i # j => ps[i] # ps[j]
                   /\ \A i \in 1..Len(ps) : ps[i] # <<>> /\ At(N, ps[i]) = At(N, ps[i])
                   /\ \A i \in 1..(Len(ps) - 1) :          \* pre-order: a path precedes its extensions and its right siblings
                        LET a == ps[i]  b == ps[i+1] IN
                        \/ (Len(b) = Len(a) + 1 /\ SubSeq(b, 1, Len(a)) = a /\ b[Len(b)] = 1)
                        \/ \E m \in 1..Len(a) : Len(b) = m /\ SubSeq(b, 1, m - 1) = SubSeq(a, 1, m - 1) /\ b[m] = a[m] + 1
\* single-field mutations of the first child: each one is visible in the document
Mutants(n) == IF n.kids = <<>> THEN {}
              ELSE LET c == n.kids[1] IN
                   { [n EXCEPT !.kids[1].s = c.s + 1], [n EXCEPT !.kids[1].e = c.e + 1],
                     [n EXCEPT !.kids[1].ty = c.ty \o <<120>>], [n EXCEPT !.kids[1].obf = c.obf \o <<120>>],
                     [n EXCEPT !.kids[1].val = c.val \o <<0>>], [n EXCEPT !.kids[1].kids = Append(c.kids, c)] }
Injective    == pc = "done" => \A m \in Mutants(N) : m # N /\ JsonDoc(m) # JsonDoc(N)
Terminates   == <>(pc = "done")
=============================================================================
