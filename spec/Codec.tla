-------------------------------- MODULE Codec --------------------------------
(***************************************************************************)
(* Data decodings as relations over byte strings (C13, C14): base64        *)
(* (RFC 4648), hexadecimal, XOR, XML numeric character references, UTF-8   *)
(* of a code point, percent-decoding, UTF-16LE Latin-1 -> UTF-8.           *)
(* Everything is a pure operator, evaluated by TLC both as the oracle for  *)
(* nodes observed in real scans and as the encoder/decoder pair behind the *)
(* instance grids (Decode(Encode(p)) = p is checked as a theorem).         *)
(***************************************************************************)
EXTENDS Bytes

Chr(c) == c          \* readability: byte constants are written as numbers with the character in a comment

---------------------------------------------------------------------------
(* base64 *)
IsB64(c) == IsAlnumB(c) \/ c = 43 \/ c = 47                 \* A-Z a-z 0-9 + /
B64Val(c) == IF IsUpperB(c) THEN c - 65 ELSE IF IsLowerB(c) THEN c - 71 ELSE IF IsDigitB(c) THEN c + 4
             ELSE IF c = 43 THEN 62 ELSE 63
B64Chr(v) == IF v < 26 THEN 65 + v ELSE IF v < 52 THEN 71 + v ELSE IF v < 62 THEN v - 4 ELSE IF v = 62 THEN 43 ELSE 47
\* RFC 4648 decoding of the alphabet characters of s (anything else, padding included, is skipped);
\* a final group of 2 / 3 characters yields 1 / 2 bytes
B64Decode(s) ==
  LET d == SelectSeq(s, IsB64)
      n == Len(d)
      v(i) == B64Val(d[i])
      grp(g) == LET b == 4 * (g - 1) IN
                << v(b+1) * 4 + v(b+2) \div 16, (v(b+2) % 16) * 16 + v(b+3) \div 4, (v(b+3) % 4) * 64 + v(b+4) >>
      full == Concat([g \in 1..(n \div 4) |-> grp(g)])
      b0 == 4 * (n \div 4)
  IN full \o (CASE n % 4 = 2 -> << v(b0+1) * 4 + v(b0+2) \div 16 >>
                [] n % 4 = 3 -> << v(b0+1) * 4 + v(b0+2) \div 16, (v(b0+2) % 16) * 16 + v(b0+3) \div 4 >>
                [] OTHER -> <<>>)
B64Encode(p) ==
  LET n == Len(p)
      grp(g) == LET b == 3 * (g - 1) IN
                << B64Chr(p[b+1] \div 4), B64Chr((p[b+1] % 4) * 16 + p[b+2] \div 16),
                   B64Chr((p[b+2] % 16) * 4 + p[b+3] \div 64), B64Chr(p[b+3] % 64) >>
      b0 == 3 * (n \div 3)
  IN Concat([g \in 1..(n \div 3) |-> grp(g)])
     \o (CASE n % 3 = 1 -> << B64Chr(p[b0+1] \div 4), B64Chr((p[b0+1] % 4) * 16), 61, 61 >>
           [] n % 3 = 2 -> << B64Chr(p[b0+1] \div 4), B64Chr((p[b0+1] % 4) * 16 + p[b0+2] \div 16),
                              B64Chr((p[b0+2] % 16) * 4), 61 >>
           [] OTHER -> <<>>)

\* the text of a bare base64 run as base64.py cleans it: HTML numeric escapes, CR, LF and the
\* "<\0  \0" marker are dropped
IsHexDigit(c) == IsDigitB(c) \/ (c >= 65 /\ c <= 70) \/ (c >= 97 /\ c <= 102)
EscLen(s, i) ==                   \* length of an HTML escape  &#x[hex]{1,4};  or  &#[0-9]{1,4};  starting at i, else 0
  LET n == Len(s)
      at(j) == IF j <= n THEN s[j] ELSE -1
      hexk == {k \in 1..4 : at(i + 3 + k) = 59 /\ \A j \in 1..k : IsHexDigit(at(i + 2 + j))}
      deck == {k \in 1..4 : at(i + 2 + k) = 59 /\ \A j \in 1..k : IsDigitB(at(i + 1 + j))}
  IN IF at(i) # 38 \/ at(i + 1) # 35 THEN 0
     ELSE IF at(i + 2) = 120 /\ hexk # {} THEN 4 + (CHOOSE k \in hexk : TRUE)
     ELSE IF deck # {} THEN 3 + (CHOOSE k \in deck : TRUE)
     ELSE 0
MARK == <<60, 0, 32, 32, 0>>
B64Clean(s) ==
  LET n == Len(s)
      inEsc == UNION { (i..(i + EscLen(s, i) - 1)) : i \in 1..n }
      inMark == UNION { IF i + 4 <= n /\ SubSeq(s, i, i + 4) = MARK THEN i..(i+4) ELSE {} : i \in 1..n }
      keep == SelectSeq([i \in 1..n |-> i], LAMBDA i : i \notin inEsc /\ i \notin inMark /\ s[i] # 10 /\ s[i] # 13)
  IN [k \in 1..Len(keep) |-> s[keep[k]]]
\* the documented acceptance rules of bare base64 (C13)
Distinct(s) == Cardinality({s[i] : i \in 1..Len(s)})
AllHex(s)     == \A i \in 1..Len(s) : IsHexDigit(s[i])
AllLetters(s) == \A i \in 1..Len(s) : IsAlphaB(s[i])
Count(s, c) == Cardinality({i \in 1..Len(s) : s[i] = c})
BareB64Accept(t) == /\ Len(t) % 4 = 0 /\ Len(t) >= 22 /\ Distinct(t) > 6
                    /\ ~AllHex(t) /\ ~AllLetters(t) /\ 32 * Count(t, 47) <= 3 * Len(t)

---------------------------------------------------------------------------
(* hexadecimal *)
HexNib(c) == IF IsDigitB(c) THEN c - 48 ELSE IF c >= 97 THEN c - 87 ELSE c - 55
Unhex(s) == [i \in 1..(Len(s) \div 2) |-> 16 * HexNib(s[2*i - 1]) + HexNib(s[2*i])]
HexLow(d) == IF d < 10 THEN 48 + d ELSE 87 + d
HexUp(d)  == IF d < 10 THEN 48 + d ELSE 55 + d
HexEncode(p, upper) == Concat([i \in 1..Len(p) |-> IF upper THEN <<HexUp(p[i] \div 16), HexUp(p[i] % 16)>>
                                                    ELSE <<HexLow(p[i] \div 16), HexLow(p[i] % 16)>>])
IsLowHex(c) == IsDigitB(c) \/ (c >= 97 /\ c <= 102)
IsUpHex(c)  == IsDigitB(c) \/ (c >= 65 /\ c <= 70)
\* a run of at least 10 pairs of hex digits of one case
HexRun(s) == Len(s) >= 20 /\ Len(s) % 2 = 0 /\ ((\A i \in 1..Len(s) : IsLowHex(s[i])) \/ (\A i \in 1..Len(s) : IsUpHex(s[i])))

---------------------------------------------------------------------------
(* XOR *)
XorB(a, b) ==                     \* bitwise xor of two bytes
  LET RECURSIVE X(_, _, _)
      X(x, y, k) == IF k = 0 THEN 0 ELSE 2 * X(x \div 2, y \div 2, k - 1) + ((x + y) % 2)
  IN X(a, b, 8)
XorKey(p, k) == [i \in 1..Len(p) |-> XorB(p[i], k)]
\* value = parent xored with some repeating key of length L
RepeatingXor(parent, value, L) ==
  /\ Len(parent) = Len(value) /\ L >= 1
  /\ \A i \in 1..Len(parent) : i + L <= Len(parent) => XorB(parent[i], value[i]) = XorB(parent[i + L], value[i + L])

---------------------------------------------------------------------------
(* decimal numbers in text *)
RECURSIVE DecVal(_)
DecVal(s) == IF s = <<>> THEN 0 ELSE 10 * DecVal(SubSeq(s, 1, Len(s) - 1)) + (s[Len(s)] - 48)
RECURSIVE HexNum(_)
HexNum(s) == IF s = <<>> THEN 0 ELSE 16 * HexNum(SubSeq(s, 1, Len(s) - 1)) + HexNib(s[Len(s)])
RECURSIVE DecStr(_)
DecStr(n) == IF n < 10 THEN <<48 + n>> ELSE DecStr(n \div 10) \o <<48 + (n % 10)>>
AllDigits(s) == s # <<>> /\ \A i \in 1..Len(s) : IsDigitB(s[i])

\* split s at every occurrence of byte c (like bytes.split)
SplitAt(s, c) ==
  LET cuts == SetToSortSeq({i \in 1..Len(s) : s[i] = c}, LAMBDA a, b : a < b)
      start(k) == IF k = 1 THEN 1 ELSE cuts[k-1] + 1
      stop(k) == IF k > Len(cuts) THEN Len(s) ELSE cuts[k] - 1
  IN [k \in 1..(Len(cuts) + 1) |-> SubSeq(s, start(k), stop(k))]

---------------------------------------------------------------------------
(* XML numeric character references: &#ddd; (0..255, leading zeros allowed up to three digits) or &#xhh; *)
XmlRefVal(r) ==                   \* r = the text between "&#" and ";" ; -1 when not a reference of the documented form
  IF Len(r) = 3 /\ (r[1] = 120 \/ r[1] = 88) /\ IsHexDigit(r[2]) /\ IsHexDigit(r[3]) THEN HexNum(SubSeq(r, 2, 3))
  ELSE IF Len(r) >= 1 /\ Len(r) <= 3 /\ AllDigits(r) /\ DecVal(r) <= 255 THEN DecVal(r)
  ELSE -1
\* s must be a concatenation of references; result: the byte values (or <<-1>> when malformed)
XmlRefs(s) ==
  LET parts == SplitAt(s, 59)                                 \* ';'
      n == Len(parts) - 1
      ok == Len(parts) >= 1 /\ parts[Len(parts)] = <<>>
            /\ \A k \in 1..n : Len(parts[k]) >= 3 /\ parts[k][1] = 38 /\ parts[k][2] = 35
      vals == [k \in 1..n |-> XmlRefVal(SubSeq(parts[k], 3, Len(parts[k])))]
  IN IF ok /\ \A k \in 1..n : vals[k] >= 0 THEN vals ELSE <<-1>>
XmlEncodeDec(p) == Concat([i \in 1..Len(p) |-> <<38, 35>> \o DecStr(p[i]) \o <<59>>])
XmlEncodeHex(p) == Concat([i \in 1..Len(p) |-> <<38, 35, 120, HexLow(p[i] \div 16), HexLow(p[i] % 16), 59>>])

---------------------------------------------------------------------------
(* UTF-8 of a code point (surrogates have no encoding) *)
Utf8(cp) ==
  IF cp < 128 THEN << cp >>
  ELSE IF cp < 2048 THEN << 192 + (cp \div 64), 128 + (cp % 64) >>
  ELSE IF cp < 65536 THEN << 224 + (cp \div 4096), 128 + ((cp \div 64) % 64), 128 + (cp % 64) >>
  ELSE << 240 + (cp \div 262144), 128 + ((cp \div 4096) % 64), 128 + ((cp \div 64) % 64), 128 + (cp % 64) >>
Encodable(cp) == cp >= 0 /\ cp < 1114112 /\ ~(cp >= 55296 /\ cp <= 57343)

---------------------------------------------------------------------------
(* percent-decoding (urllib.parse.unquote_to_bytes): %XX with two hex digits of either case; anything else is literal *)
PercentDecode(s) ==
  LET n == Len(s)
      isEsc(i) == s[i] = 37 /\ i + 2 <= n /\ IsHexDigit(s[i+1]) /\ IsHexDigit(s[i+2])
      stSet == {i \in 1..n : isEsc(i)}       \* escapes cannot overlap: their digits are never '%'
      covered == UNION {{x + 1, x + 2} : x \in stSet}
      keep == SelectSeq([i \in 1..n |-> i], LAMBDA i : i \notin covered)
  IN [k \in 1..Len(keep) |-> IF keep[k] \in stSet THEN 16 * HexNib(s[keep[k] + 1]) + HexNib(s[keep[k] + 2]) ELSE s[keep[k]]]

---------------------------------------------------------------------------
(* UTF-16LE text whose code units are all below 256 -> UTF-8 *)
Utf16Latin1(s) == Len(s) % 2 = 0 /\ \A i \in 1..(Len(s) \div 2) : s[2*i] = 0
Utf16ToUtf8(s) == Concat([i \in 1..(Len(s) \div 2) |-> Utf8(s[2*i - 1])])
Utf16Encode(p) == Concat([i \in 1..Len(p) |-> <<p[i], 0>>])
\* the characters a run may consist of (codec.py): not C0 controls other than TAB LF VT FF CR, not DEL..0x9f
Utf16Char(b) == ~(b <= 8) /\ ~(b >= 14 /\ b <= 31) /\ ~(b >= 127 /\ b <= 159)
=============================================================================
