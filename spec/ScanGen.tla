------------------------------ MODULE ScanGen ------------------------------
(* Exports the world family of ScanMC so that the harness can replay every world (or a seeded
   sample) through the real engine with a synthetic registry: world w = (KSeq, H1, H2)[indices of w]. *)
EXTENDS ScanMC, Json, IOUtils
ASSUME JsonSerialize(IOEnv.OUT_FILE, [ks |-> KSeq, h1 |-> H1, h2 |-> H2, texts |-> TextTable, n |-> GenN])
=============================================================================
