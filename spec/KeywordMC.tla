----------------------------- MODULE KeywordMC -----------------------------
(***************************************************************************)
(* The find loop of keyword.find_all as a machine, checked against the     *)
(* occurrence specification for every (keyword, data) pair over a small    *)
(* alphabet: two letters in both cases, a digit and a delimiter.           *)
(***************************************************************************)
EXTENDS Keyword

CONSTANTS Alphabet, MaxKw, MaxData

Strs(n) == UNION { [1..m -> Alphabet] : m \in 0..n }
KwSeq   == SetToSeq(Strs(MaxKw) \ {<<>>})
DataSeq == SetToSeq(Strs(MaxData))

VARIABLES ki, di, start, starts, pc
vars == <<ki, di, start, starts, pc>>
kw   == Lower(KwSeq[ki])         \* find_keywords passes keyword.lower() and data.lower()
data == Lower(DataSeq[di])
Raw  == DataSeq[di]

Init == /\ ki \in 1..Len(KwSeq) /\ di \in 1..Len(DataSeq)
        /\ start = Find(data, kw, 0)                               \* keyword.py:42
        /\ starts = <<>> /\ pc = "loop"
Loop ==                                                             \* :43-49, one iteration
  /\ pc = "loop" /\ start >= 0
  /\ LET end == start + Len(kw) IN
     /\ starts' = IF (start = 0 \/ ~IsAlnumB(data[start])) /\ (end = Len(data) \/ ~IsAlnumB(data[end + 1]))
                  THEN Append(starts, start) ELSE starts             \* :45-48
     /\ start' = Find(data, kw, start + Len(kw))                     \* :49
  /\ UNCHANGED <<ki, di, pc>>
Exit == pc = "loop" /\ start < 0 /\ pc' = "done" /\ UNCHANGED <<ki, di, start, starts>>
Next == Loop \/ Exit
Spec == Init /\ [][Next]_vars /\ WF_vars(Next)

Refines == pc = "done" => starts = SetToSortedSeq(HitStarts(KwSeq[ki], Raw))
\* the truth table of the label, against the code's loop (keyword.py:10-20)
CodeMixed(value, raw) ==
  IF IsUpperS(raw) \/ IsLowerS(raw) THEN FALSE
  ELSE \E i \in 1..Len(raw) : (IsUpperB(raw[i]) /\ ~IsUpperB(value[i])) \/ (IsLowerB(raw[i]) /\ ~IsLowerB(value[i]))
LabelAgrees == pc = "done" => \A j \in 1..Len(starts) :
                 LET raw == SubSeq(Raw, starts[j] + 1, starts[j] + Len(kw)) IN
                 CodeMixed(KwSeq[ki], raw) = Mixed(KwSeq[ki], raw)
\* every reported start is a genuine, delimited occurrence, strictly increasing, non-overlapping
Sound == \A j \in 1..Len(starts) :
            /\ Matches(KwSeq[ki], Raw, starts[j])
            /\ (j > 1 => starts[j] >= starts[j-1] + Len(kw))
Terminates == <>(pc = "done")
=============================================================================
