-------------------------------- MODULE Shell --------------------------------
(***************************************************************************)
(* cmd.exe / PowerShell command extraction (decoders/shell.py), C16.       *)
(* Specs: CaretSpec (caret removal by cmd.exe rules), CmdEnd (where a cmd  *)
(* command ends), Repair (stray closing quote glued to the command token), *)
(* PsEnd (where a PowerShell command ends), EncRewrite (encoded-command    *)
(* invocations).  ShellMC.tla holds the code-shaped machines for the two   *)
(* hand-written loops (strip_carets, the parenthesis scanner) and checks   *)
(* them against these specs; ShellTrace.tla judges the real functions.     *)
(***************************************************************************)
EXTENDS Codec

CARET == 94  QUOTE == 34  APOS == 39  CR == 13  LF == 10  NUL == 0  LP == 40  RP == 41  SLASH == 47  DASH == 45

---------------------------------------------------------------------------
(* C16: outside double quotes a caret is dropped and the next character kept literally; a caret before
   CR LF is a line continuation (all three vanish, the character after them is kept literally); a
   trailing caret is dropped; inside quotes carets are literal; a CR ends a quoted region. *)
RECURSIVE CaretFrom(_, _, _)
CaretFrom(s, p, inStr) ==
  IF p > Len(s) THEN <<>> ELSE LET c == s[p] IN
  IF c = CARET /\ ~inStr THEN
       IF p = Len(s) THEN <<>>
       ELSE IF p + 2 <= Len(s) /\ s[p+1] = CR /\ s[p+2] = LF
            THEN IF p + 3 <= Len(s) THEN <<s[p+3]>> \o CaretFrom(s, p + 4, inStr) ELSE <<>>
            ELSE <<s[p+1]>> \o CaretFrom(s, p + 2, inStr)
  ELSE IF c = QUOTE THEN <<c>> \o CaretFrom(s, p + 1, ~inStr)
  ELSE IF c = CR    THEN <<c>> \o CaretFrom(s, p + 1, FALSE)
  ELSE <<c>> \o CaretFrom(s, p + 1, inStr)
CaretSpec(s) == CaretFrom(s, 1, FALSE)

---------------------------------------------------------------------------
(* a cmd command, given the text m from the cmd token up to the next NUL (or the end of the text):
   it ends at the first unbalanced closing parenthesis, else at the end of m *)
ParenDepth(m, i) == Cardinality({j \in 1..i : m[j] = LP}) - Cardinality({j \in 1..i : m[j] = RP})
CmdEnd(m) == LET neg == {i \in 1..Len(m) : ParenDepth(m, i) < 0}
             IN IF neg = {} THEN Len(m) ELSE (CHOOSE i \in neg : \A j \in neg : i <= j) - 1      \* length of the command
\* first whitespace-separated token of s: [a, b) as 0-based offsets; <<0,0>> when s is blank
IsSpace(c) == c = 32 \/ (c >= 9 /\ c <= 13)            \* bytes.split(): space \t \n \v \f \r
FirstToken(s) ==
  LET non == {i \in 1..Len(s) : ~IsSpace(s[i])}
      a == IF non = {} THEN 0 ELSE CHOOSE i \in non : \A j \in non : i <= j
      sp == {i \in a..Len(s) : a > 0 /\ IsSpace(s[i])}
      b == IF sp = {} THEN Len(s) + 1 ELSE CHOOSE i \in sp : \A j \in sp : i <= j
  IN IF a = 0 THEN <<0, 0>> ELSE <<a - 1, b - 1>>
\* the value loses a closing quote glued to the command token (the token ends with a quote it does not start with)
Repair(s) ==
  LET t == FirstToken(s)  tok == SubSeq(s, t[1] + 1, t[2])
      glued(q) == tok # <<>> /\ tok[Len(tok)] = q /\ tok[1] # q
  IN IF glued(QUOTE) \/ glued(APOS) THEN SubSeq(s, 1, t[2] - 1) \o SubSeq(s, t[2] + 1, Len(s)) ELSE s
CARETS == "unescape.shell.carets"
CmdNode(data, start, mend) ==                 \* start, mend: 0-based span of the regex match (token .. NUL/end)
  LET m == SubSeq(data, start + 1, mend)
      n == CmdEnd(m)
      span == SubSeq(m, 1, n)
      de == CaretSpec(span)
  IN [s |-> start, e |-> start + n, ty |-> "shell.cmd", val |-> Repair(de), obf |-> IF de # span THEN CARETS ELSE ""]

---------------------------------------------------------------------------
(* a PowerShell command starting at 0-based `start`: to the end of its encoded argument (encEnd >= 0), else
   to the close of the enclosing quoted string / FOR-loop clause, else to the end of the text *)
PsContext(data, start) ==        \* nearest quote at or left of start; "for" when that quote is ' preceded by (
  LET qs == {i \in 1..(start + 1) : data[i] = QUOTE \/ data[i] = APOS}
      q == IF qs = {} THEN 0 ELSE CHOOSE i \in qs : \A j \in qs : i >= j
  IN IF q = 0 THEN "none"
     ELSE IF data[q] = APOS /\ q > 1 /\ data[q-1] = LP THEN "for"
     ELSE IF data[q] = QUOTE THEN "dq" ELSE "sq"
PsEnd(data, start, encEnd) ==
  LET ctx == PsContext(data, start)
      close == IF ctx = "for" THEN Find(data, <<APOS, RP>>, start)
               ELSE IF ctx = "dq" THEN Find(data, <<QUOTE>>, start)
               ELSE IF ctx = "sq" THEN Find(data, <<APOS>>, start) ELSE -1
  IN IF encEnd >= 0 THEN encEnd ELSE IF ctx # "none" /\ close >= 0 THEN close ELSE Len(data)

\* whitespace-separated tokens of s (bytes.split())
Tokens(s) ==
  LET RECURSIVE T(_)
      T(r) == LET t == FirstToken(r) IN
              IF t = <<0, 0>> THEN <<>> ELSE <<SubSeq(r, t[1] + 1, t[2])>> \o T(SubSeq(r, t[2] + 1, Len(r)))
  IN T(s)
StripQuotes(t) ==                 \* bytes.strip(b"'\"")
  LET isq(c) == c = QUOTE \/ c = APOS
      keep == {i \in 1..Len(t) : ~isq(t[i])}
  IN IF keep = {} THEN <<>>
     ELSE SubSeq(t, CHOOSE i \in keep : \A j \in keep : i <= j, CHOOSE i \in keep : \A j \in keep : i >= j)
COMMAND == <<32, 45, 67, 111, 109, 109, 97, 110, 100, 32>>          \* " -Command "
RECURSIVE JoinSp(_)
JoinSp(ts) == IF ts = <<>> THEN <<>> ELSE IF Len(ts) = 1 THEN ts[1] ELSE ts[1] \o <<32>> \o JoinSp(Tail(ts))
\* de = the de-escaped invocation "powershell <switches> -e <base64>".  Result: [dom, val]
\*   dom: inside the documented domain (base64 text of a length that is a multiple of 4, decoding to UTF-16LE
\*        code units below 0xD800 without a byte-order mark)
EncRewrite(de) ==
  LET toks == Tokens(de)
      enc == StripQuotes(toks[Len(toks)])
      raw == B64Decode(enc)
      le == [i \in 1..(Len(raw) \div 2) |-> raw[2*i - 1] + 256 * raw[2*i]]
      be == [i \in 1..(Len(raw) \div 2) |-> raw[2*i] + 256 * raw[2*i - 1]]
      \* Python's "utf-16" codec: a leading byte-order mark selects the byte order and is not part of the text
      units == IF Len(le) >= 1 /\ le[1] = 65279 THEN SubSeq(le, 2, Len(le))
               ELSE IF Len(le) >= 1 /\ le[1] = 65534 THEN SubSeq(be, 2, Len(be))
               ELSE le
      okB64 == Len(toks) >= 2 /\ Len(enc) % 4 = 0 /\ enc # <<>> /\ (\A i \in 1..Len(enc) : IsB64(enc[i]) \/ enc[i] = 61)
      okU16 == Len(raw) % 2 = 0 /\ (\A i \in 1..Len(units) : units[i] < 55296)
      text == Concat([i \in 1..Len(units) |-> Utf8(units[i])])
      \* the invocation: everything before the last token, "/" switches turned into " -", first token repaired,
      \* the encoded-command switch (the last remaining token) dropped
      lastTokStart == Len(de) - Len(toks[Len(toks)])
      inv0 == SubSeq(de, 1, lastTokStart)
      inv1 == Concat([i \in 1..Len(inv0) |-> IF inv0[i] = SLASH THEN <<32, DASH>> ELSE <<inv0[i]>>])
      args == Tokens(inv1)
      a1 == IF args # <<>> THEN Repair(args[1]) ELSE <<>>
      kept == IF Len(args) >= 2 THEN <<a1>> \o SubSeq(args, 2, Len(args) - 1) ELSE <<>>
  IN [dom |-> okB64 /\ okU16 /\ Len(args) >= 2 /\ de[Len(de)] # 32,
      val |-> JoinSp(kept) \o COMMAND \o text]
=============================================================================
