------------------------------- MODULE CodecMC -------------------------------
(* Round-trip theorems of Codec.tla, checked by TLC over small payload universes (the encoders are the
   right inverses used by the instance grids): every byte value, every length modulo 3, both hex cases. *)
EXTENDS Codec
CONSTANTS MaxLen, Bs
Payloads == UNION { [1..m -> Bs] : m \in 0..MaxLen }
VARIABLES p, done
Init == p \in Payloads /\ done = FALSE
Next == ~done /\ done' = TRUE /\ UNCHANGED p
Spec == Init /\ [][Next]_<<p, done>>
B64RoundTrip == B64Decode(B64Encode(p)) = p /\ Len(B64Encode(p)) % 4 = 0
HexRoundTrip == Unhex(HexEncode(p, TRUE)) = p /\ Unhex(HexEncode(p, FALSE)) = p
XmlRoundTrip == XmlRefs(XmlEncodeDec(p)) = p /\ XmlRefs(XmlEncodeHex(p)) = p
XorInvolution == \A k \in {0, 1, 35, 128, 255} : XorKey(XorKey(p, k), k) = p
Utf16RoundTrip == Utf16Latin1(Utf16Encode(p)) /\ Utf16ToUtf8(Utf16Encode(p)) = Concat([i \in 1..Len(p) |-> Utf8(p[i])])
PercentPlain == (\A i \in 1..Len(p) : p[i] # 37) => PercentDecode(p) = p
=============================================================================
