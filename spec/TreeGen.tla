------------------------------- MODULE TreeGen -------------------------------
(* Exports the tree universe of TreeMC so that every tree (or a seeded sample) can be built from real
   Node objects and run through the implementation's views. *)
EXTENDS TreeMC, Json, IOUtils
ASSUME JsonSerialize(IOEnv.OUT_FILE, Trees)
=============================================================================
