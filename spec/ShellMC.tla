------------------------------- MODULE ShellMC -------------------------------
(***************************************************************************)
(* The two hand-written loops of shell.py as machines, one action per      *)
(* iteration, every byte read guarded (ReadOK), checked against Shell.tla  *)
(* over every string up to MaxLen over the loop's critical alphabet.       *)
(*   Which = "caret": strip_carets                  (shell.py:24-46)       *)
(*   Which = "paren": the scanner in find_cmd_strings (shell.py:60-68)     *)
(* Variant "asis" is the code of the pinned commit (IndexError / wrong     *)
(* output / runaway end); "fixed" the code after the fix: commits.         *)
(***************************************************************************)
EXTENDS Shell
CONSTANTS Alphabet, MaxLen, Which, Variant

Strings == UNION { [1..n -> Alphabet] : n \in 0..MaxLen }
VARIABLES cmd, i, inStr, out, pc, parens, end
vars == <<cmd, i, inStr, out, pc, parens, end>>
AtIx(k) == cmd[k + 1]                 \* python cmd[k]
ReadOK(k) == k >= 0 /\ k < Len(cmd)

Init == /\ cmd \in Strings /\ i = 0 /\ inStr = FALSE /\ out = <<>> /\ parens = 0 /\ end = Len(cmd)
        /\ pc = IF Which = "caret" THEN "loop" ELSE "scan"

\* ---- strip_carets -----------------------------------------------------------------------
CaretLoop ==
  /\ pc = "loop"
  /\ IF i < Len(cmd) - 1
     THEN LET ch == AtIx(i) IN
          IF ch = QUOTE THEN /\ inStr' = ~inStr /\ out' = Append(out, AtIx(i)) /\ i' = i + 1 /\ pc' = "loop"
          ELSE IF ch = CR THEN /\ inStr' = FALSE /\ out' = Append(out, AtIx(i)) /\ i' = i + 1 /\ pc' = "loop"
          ELSE IF ch = CARET /\ ~inStr THEN
               LET i1 == i + 1
                   i2 == IF Variant = "asis"
                         THEN (IF AtIx(i1) = CR THEN i1 + 2 ELSE i1)
                         ELSE (IF AtIx(i1) = CR /\ ReadOK(i1 + 1) /\ AtIx(i1 + 1) = LF THEN i1 + 2 ELSE i1)
               IN IF ReadOK(i2)
                  THEN /\ out' = Append(out, AtIx(i2)) /\ i' = i2 + 1 /\ pc' = "loop" /\ UNCHANGED inStr
                  ELSE IF Variant = "asis"
                       THEN /\ pc' = "IndexError" /\ UNCHANGED <<i, inStr, out>>
                       ELSE /\ i' = i2 /\ pc' = "tail" /\ UNCHANGED <<inStr, out>>        \* break
          ELSE /\ out' = Append(out, AtIx(i)) /\ i' = i + 1 /\ pc' = "loop" /\ UNCHANGED inStr
     ELSE /\ pc' = "tail" /\ UNCHANGED <<i, inStr, out>>
  /\ UNCHANGED <<cmd, parens, end>>
CaretTail ==
  /\ pc = "tail"
  /\ out' = IF i < Len(cmd) /\ (AtIx(i) # CARET \/ inStr) THEN Append(out, AtIx(i)) ELSE out
  /\ pc' = "done" /\ UNCHANGED <<cmd, i, inStr, parens, end>>

\* ---- the parenthesis scanner: for i, char in enumerate(full_cmd) ----------------------------
ParenStep ==
  /\ pc = "scan" /\ i < Len(cmd)
  /\ LET ch == AtIx(i)
         p2 == IF ch = RP THEN parens - 1 ELSE IF ch = LP THEN parens + 1 ELSE parens
     IN /\ parens' = p2
        /\ IF p2 < 0 THEN /\ end' = i
                          /\ pc' = IF Variant = "fixed" THEN "done" ELSE "scan"      \* the break
                     ELSE UNCHANGED <<end, pc>>
  /\ i' = i + 1 /\ UNCHANGED <<cmd, inStr, out>>
ParenEnd == pc = "scan" /\ i >= Len(cmd) /\ pc' = "done" /\ UNCHANGED <<cmd, i, inStr, out, parens, end>>

Next == CaretLoop \/ CaretTail \/ ParenStep \/ ParenEnd
Spec == Init /\ [][Next]_vars /\ WF_vars(Next)

NoIndexError == pc # "IndexError"
CaretRefines == (Which = "caret" /\ pc = "done") => out = CaretSpec(cmd)
ParenRefines == (Which = "paren" /\ pc = "done") => end = CmdEnd(cmd)
\* sanity of the spec itself: without carets, quotes toggles nothing away; the output never grows
CaretShrinks == (Which = "caret" /\ pc = "done") => Len(out) <= Len(cmd)
Terminates == <>(pc \in {"done", "IndexError"})
=============================================================================
