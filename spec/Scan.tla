------------------------------- MODULE Scan -------------------------------
(***************************************************************************)
(* The scan engine of Multidecoder (src/multidecoder/multidecoder.py),     *)
(* written as a state machine whose actions are the branches / loop        *)
(* iterations of scan_node, together with the declarative reference        *)
(* procedure of property C06 and the invariants behind C03..C08 and the    *)
(* engine half of C01.                                                     *)
(*                                                                         *)
(* A *world* is everything the engine can observe of its registry:         *)
(*   [k     : depth limit handed to scan(),                                *)
(*    texts : Seq(Seq(0..255)), interned by content, texts[1] = the input, *)
(*    hits  : hits[t] = what the registry returns for text t, in registry  *)
(*            order; a hit is [s, e, ty, val, kids] in the coordinates of  *)
(*            t, val a text id, kids a decoder-supplied forest]            *)
(* The machine never sees abstract "kinds": whether a hit counts as        *)
(* decoded is computed from the bytes exactly as the code does.            *)
(* The module is used with two sources of worlds: ScanMC.tla generates     *)
(* every world of a bounded family, ScanTrace.tla reads worlds recorded    *)
(* from the real implementation.  Both run literally the same Next.        *)
(***************************************************************************)
EXTENDS Bytes

CONSTANTS NWorlds,            \* worlds are numbered 1..NWorlds; world w is given by four accessors
          WK(_),              \*   its depth limit
          WTexts(_),          \*   its text table
          WHits(_, _),        \*   WHits(w, t) = registry answers for text t
          Variant     \* "fixed": decode_end kept in the coordinates of the searched text
                      \* "asis" : decode_end taken after re-basing (the defect of the pinned commit)

VARIABLES wid,        \* which world this behaviour runs in
          st,         \* call stack of scan_node activations
          nodes,      \* id -> node record (id = index); nodes[1] is the root
          log,        \* observation: Collect events and the fate of every hit
          verdict     \* "run" | "done" | "hang"
vars == <<wid, st, nodes, log, verdict>>

K == WK(wid)
TextB(t)   == WTexts(wid)[t]
TextLen(t) == Len(WTexts(wid)[t])
HitsOf(t)  == WHits(wid, t)
NTexts     == Len(WTexts(wid))

---------------------------------------------------------------------------
(* byte-string operations: Bytes.tla *)

---------------------------------------------------------------------------
(* multidecoder.py:42-45 -- drop empty values, stable sort by (start, -end) *)
Before(a, b) == a.s < b.s \/ (a.s = b.s /\ a.e > b.e)
RECURSIVE SortHits(_)
SortHits(hs) == IF hs = <<>> THEN <<>> ELSE
   LET rest == SortHits(Tail(hs))
       h == Head(hs)
       RECURSIVE Ins(_)
       Ins(sq) == IF sq = <<>> THEN <<h>>
                  ELSE IF Before(Head(sq), h) THEN <<Head(sq)>> \o Ins(Tail(sq))
                  ELSE <<h>> \o sq
   IN Ins(rest)
NonEmpty(hs) == SelectSeq(hs, LAMBDA h : TextLen(h.val) > 0)
Sorted(t) == SortHits(NonEmpty(HitsOf(t)))

\* multidecoder.py:63 -- "decoded" as the code computes it, in the coordinates of the searched text
Dec(t, h) == h.kids # <<>> \/ Lower(TextB(h.val)) # Lower(PySlice(TextB(t), h.s, h.e))

\* engine precondition (C06: "non-empty, in-bounds hits"; C03 is the decoder-side obligation)
HitOK(t, h) == 0 <= h.s /\ h.s < h.e /\ h.e <= TextLen(t)
RECURSIVE KidsOK(_, _)
KidsOK(vlen, kids) == \A i \in 1..Len(kids) :
     /\ 0 <= kids[i].s /\ kids[i].s <= kids[i].e /\ kids[i].e <= vlen
     /\ KidsOK(TextLen(kids[i].val), kids[i].kids)
Precondition == \A t \in 1..NTexts : \A i \in 1..Len(HitsOf(t)) :
                    TextLen(HitsOf(t)[i].val) > 0 => HitOK(t, HitsOf(t)[i])

---------------------------------------------------------------------------
(***************************************************************************)
(* The declarative reference of C06: no stack, no offsets, no decode_end.  *)
(* Result trees are nested records [ty, obf, val, s, e, kids].             *)
(***************************************************************************)
RefStatus(t, nty, hs) ==                         \* hs = Sorted(t)
  LET RECURSIVE St(_)
      St(i) == IF i = 0 THEN [kept |-> {}, par |-> <<>>]
               ELSE LET p == St(i-1)
                        h == hs[i]
                        shadowed(g) == \E j \in p.kept : j < g /\ Dec(t, hs[j]) /\ hs[j].e >= hs[g].e
                        openAt(c) == c \in p.kept /\ ~Dec(t, hs[c])
                                     /\ \A g \in (c+1)..i : ~shadowed(g) => hs[g].e <= hs[c].e
                        cands == {c \in 1..(i-1) : openAt(c)}
                        par  == IF cands = {} THEN 0 ELSE CHOOSE c \in cands : \A c2 \in cands : c2 <= c
                        pS   == IF par = 0 THEN 0   ELSE hs[par].s
                        pTy  == IF par = 0 THEN nty ELSE hs[par].ty
                        pVal == IF par = 0 THEN t   ELSE hs[par].val      \* texts are interned by content
                        restate == h.s = pS /\ h.ty = pTy /\ h.val = pVal
                    IN IF shadowed(i) \/ restate THEN [kept |-> p.kept,           par |-> Append(p.par, par)]
                       ELSE                           [kept |-> p.kept \cup {i}, par |-> Append(p.par, par)]
  IN St(Len(hs))

RECURSIVE PlainKids(_)
PlainKids(kids) == [i \in 1..Len(kids) |->
     [ty |-> kids[i].ty, obf |-> kids[i].obf, val |-> kids[i].val, s |-> kids[i].s, e |-> kids[i].e,
      kids |-> PlainKids(kids[i].kids)]]

RECURSIVE RefScan(_, _, _), RefNode(_, _, _, _, _), RefKids(_, _, _, _, _), RefKid(_, _), RefForest(_, _)
\* a decoder-supplied node handed to scan_node with depth d (multidecoder.py:29-35)
RefKid(kid, d) ==
  [ty |-> kid.ty, obf |-> kid.obf, val |-> kid.val, s |-> kid.s, e |-> kid.e,
   kids |-> IF d <= 0 THEN PlainKids(kid.kids)
            ELSE IF kid.kids # <<>> THEN RefForest(kid.kids, d - 1)
            ELSE RefScan(kid.val, kid.ty, d)]
RefForest(kids, d) == [i \in 1..Len(kids) |-> RefKid(kids[i], d)]
RefNode(t, hs, stt, i, d) ==                      \* tree of kept hit i; spans relative to its parent
  LET h == hs[i]  p == stt.par[i]  base == IF p = 0 THEN 0 ELSE hs[p].s
  IN [ty |-> h.ty, obf |-> h.obf, val |-> h.val, s |-> h.s - base, e |-> h.e - base,
      kids |-> IF h.kids # <<>>  THEN (IF d - 1 <= 0 THEN PlainKids(h.kids) ELSE RefForest(h.kids, d - 2))
               ELSE IF Dec(t, h) THEN RefScan(h.val, h.ty, d - 1)   \* decoded: search the value, one less depth
               ELSE RefKids(t, hs, stt, i, d)]                      \* context: the hits nested in it
RefKids(t, hs, stt, p, d) ==
  LET idx == SelectSeq([j \in 1..Len(hs) |-> j], LAMBDA j : j \in stt.kept /\ stt.par[j] = p)
  IN [k \in 1..Len(idx) |-> RefNode(t, hs, stt, idx[k], d)]
RefScan(t, nty, d) == IF d <= 0 THEN <<>>
                      ELSE LET hs == Sorted(t) IN RefKids(t, hs, RefStatus(t, nty, hs), 0, d)

RefTree(k) == [ty |-> "", obf |-> "", val |-> 1, s |-> 0, e |-> TextLen(1), kids |-> RefScan(1, "", k)]

\* C07: the tree for k is the tree for k+1 with the deepest search pass removed.  A node's level is the
\* number of decoding steps between the input and the text in which it was found.
RECURSIVE LvlScan(_, _, _, _), LvlKid(_, _, _, _), LvlForest(_, _, _, _), LvlPlain(_, _)
LvlPlain(kids, lv) == [i \in 1..Len(kids) |->
     [ty |-> kids[i].ty, obf |-> kids[i].obf, val |-> kids[i].val, s |-> kids[i].s, e |-> kids[i].e,
      lvl |-> lv, kids |-> LvlPlain(kids[i].kids, lv)]]
\* lv = level of the pass that returned the hit this kid belongs to; slv = level of the pass that
\* would search the kid's own value (every scan_node call costs one unit of depth)
LvlKid(kid, d, lv, slv) ==
  [ty |-> kid.ty, obf |-> kid.obf, val |-> kid.val, s |-> kid.s, e |-> kid.e, lvl |-> lv,
   kids |-> IF d <= 0 THEN LvlPlain(kid.kids, lv)
            ELSE IF kid.kids # <<>> THEN LvlForest(kid.kids, d - 1, lv, slv + 1)
            ELSE LvlScan(kid.val, kid.ty, d, slv)]
LvlForest(kids, d, lv, slv) == [i \in 1..Len(kids) |-> LvlKid(kids[i], d, lv, slv)]
LvlScan(t, nty, d, lv) ==                         \* the same tree as RefScan(t, nty, d), nodes tagged with lv
  IF d <= 0 THEN <<>> ELSE
  LET hs == Sorted(t)  stt == RefStatus(t, nty, hs)
      RECURSIVE Nd(_), Ks(_)
      Nd(i) == LET h == hs[i]  p == stt.par[i]  base == IF p = 0 THEN 0 ELSE hs[p].s
               IN [ty |-> h.ty, obf |-> h.obf, val |-> h.val, s |-> h.s - base, e |-> h.e - base, lvl |-> lv,
                   kids |-> IF h.kids # <<>> THEN (IF d - 1 <= 0 THEN LvlPlain(h.kids, lv)
                                                   ELSE LvlForest(h.kids, d - 2, lv, lv + 2))
                            ELSE IF Dec(t, h) THEN LvlScan(h.val, h.ty, d - 1, lv + 1)
                            ELSE Ks(i)]
      Ks(p) == LET idx == SelectSeq([j \in 1..Len(hs) |-> j], LAMBDA j : j \in stt.kept /\ stt.par[j] = p)
               IN [k \in 1..Len(idx) |-> Nd(idx[k])]
  IN Ks(0)
RECURSIVE Truncate(_, _)
Truncate(kids, maxLvl) ==                        \* drop every node found by a pass at level >= maxLvl
  LET keep == SelectSeq(kids, LAMBDA n : n.lvl < maxLvl)
  IN [i \in 1..Len(keep) |-> [ty |-> keep[i].ty, obf |-> keep[i].obf, val |-> keep[i].val,
                               s |-> keep[i].s, e |-> keep[i].e, kids |-> Truncate(keep[i].kids, maxLvl)]]

---------------------------------------------------------------------------
(***************************************************************************)
(* The machine: scan_node, one action per branch / loop iteration.         *)
(***************************************************************************)
Frame(nid, d) == [nid |-> nid, d |-> d, pc |-> "enter", res |-> <<>>, i |-> 1, ctx |-> <<>>,
                  cur |-> nid, off |-> 0, dEnd |-> 0, k |-> 1, txt |-> 0, c |-> 0]

RootNode == [ty |-> "", obf |-> "", val |-> 1, s |-> 0, e |-> TextLen(1), parent |-> 0, children |-> <<>>,
             kind |-> "root", src |-> <<0, 0>>, fr |-> 0, as |-> 0, ae |-> 0]

Init == /\ wid \in 1..NWorlds
        /\ st = << Frame(1, K) >>            \* multidecoder.py:19
        /\ nodes = << RootNode >>
        /\ log = [collects |-> <<>>, fates |-> <<>>]
        /\ verdict = "run"

Top == st[Len(st)]
SetTop(f) == [st EXCEPT ![Len(st)] = f]
Running == verdict = "run" /\ st # <<>>

\* a decoder-supplied forest becomes node records appended after the hit's own node
RECURSIVE KidNodes(_, _, _)
KidNodes(kids, parentId, firstId) ==
  IF kids = <<>> THEN [ns |-> <<>>, ids |-> <<>>]
  ELSE LET k == Head(kids)
           sub == KidNodes(k.kids, firstId, firstId + 1)
           me == [ty |-> k.ty, obf |-> k.obf, val |-> k.val, s |-> k.s, e |-> k.e, parent |-> parentId,
                  children |-> sub.ids, kind |-> "kid", src |-> <<0, 0>>, fr |-> 0, as |-> 0, ae |-> 0]
           rest == KidNodes(Tail(kids), parentId, firstId + 1 + Len(sub.ns))
       IN [ns |-> <<me>> \o sub.ns \o rest.ns, ids |-> <<firstId>> \o rest.ids]

EnterRet ==                                  \* :29-30  depth exhausted
  /\ Running /\ Top.pc = "enter" /\ Top.d <= 0
  /\ st' = SetTop([Top EXCEPT !.pc = "ret"])
  /\ UNCHANGED <<wid, nodes, log, verdict>>

EnterKids ==                                 \* :31  node already has children: never search it
  /\ Running /\ Top.pc = "enter" /\ Top.d > 0 /\ nodes[Top.nid].children # <<>>
  /\ st' = SetTop([Top EXCEPT !.pc = "kids"])
  /\ UNCHANGED <<wid, nodes, log, verdict>>

Kids ==                                      \* :33-35  one iteration of the loop over existing children
  /\ Running /\ Top.pc = "kids"
  /\ LET f == Top  n == nodes[f.nid] IN
     IF f.k > Len(n.children) THEN st' = SetTop([f EXCEPT !.pc = "ret"])
     ELSE st' = Append(SetTop([f EXCEPT !.k = f.k + 1]), Frame(n.children[f.k], f.d - 1))
  /\ UNCHANGED <<wid, nodes, log, verdict>>

Collect ==                                   \* :42-45  ask every registry entry, drop empty values, sort
  /\ Running /\ Top.pc = "enter" /\ Top.d > 0 /\ nodes[Top.nid].children = <<>>
  /\ LET f == Top  t == nodes[f.nid].val  hs == Sorted(t) IN
     /\ st' = SetTop([f EXCEPT !.pc = "loop", !.res = hs, !.txt = t, !.c = Len(log.collects) + 1])
     /\ log' = [log EXCEPT !.collects = Append(@, [t |-> t, d |-> f.d, n |-> Len(hs), nid |-> f.nid])]
  /\ UNCHANGED <<wid, nodes, verdict>>

LoopEnd ==                                   \* :47 exhausted
  /\ Running /\ Top.pc = "loop" /\ Top.i > Len(Top.res)
  /\ st' = SetTop([Top EXCEPT !.pc = "ret"])
  /\ UNCHANGED <<wid, nodes, log, verdict>>

Skip ==                                      \* :49-50  hit ends inside the last decoded span
  /\ Running /\ Top.pc = "loop" /\ Top.i <= Len(Top.res)
  /\ Top.res[Top.i].e <= Top.dEnd
  /\ st' = SetTop([Top EXCEPT !.i = Top.i + 1])
  /\ log' = [log EXCEPT !.fates = Append(@, [c |-> Top.c, j |-> Top.i, fate |-> "skip"])]
  /\ UNCHANGED <<wid, nodes, verdict>>

NoSkip ==
  /\ Running /\ Top.pc = "loop" /\ Top.i <= Len(Top.res)
  /\ Top.res[Top.i].e > Top.dEnd
  /\ st' = SetTop([Top EXCEPT !.pc = "pop"])
  /\ UNCHANGED <<wid, nodes, log, verdict>>

Pop ==                                       \* :52-55  one iteration of the context-pop while loop
  /\ Running /\ Top.pc = "pop"
  /\ LET f == Top  h == f.res[f.i]  c == nodes[f.cur] IN
     IF h.e > f.off + TextLen(c.val)
     THEN IF f.ctx = <<>> /\ c.s >= 0
          THEN verdict' = "hang" /\ UNCHANGED st      \* the loop can never exit: absorbing state
          ELSE /\ st' = SetTop([f EXCEPT !.off = f.off - c.s,
                                        !.cur = IF f.ctx # <<>> THEN Last(f.ctx) ELSE f.cur,
                                        !.ctx = IF f.ctx # <<>> THEN Front(f.ctx) ELSE f.ctx])
               /\ UNCHANGED verdict
     ELSE st' = SetTop([f EXCEPT !.pc = "place"]) /\ UNCHANGED verdict
  /\ UNCHANGED <<wid, nodes, log>>

\* :56  the hit re-based into the current context
PlaceS == Top.res[Top.i].s - Top.off
PlaceE == Top.res[Top.i].e - Top.off
Restates == LET h == Top.res[Top.i]  c == nodes[Top.cur]
            IN PlaceS = 0 /\ h.val = c.val /\ h.ty = c.ty                       \* :58
IsDecoded == LET h == Top.res[Top.i]  c == nodes[Top.cur]
             IN h.kids # <<>> \/ Lower(TextB(h.val)) # Lower(PySlice(TextB(c.val), PlaceS, PlaceE))   \* :63

DropRestate ==                               \* :58-59
  /\ Running /\ Top.pc = "place" /\ Restates
  /\ st' = SetTop([Top EXCEPT !.i = Top.i + 1, !.pc = "loop"])
  /\ log' = [log EXCEPT !.fates = Append(@, [c |-> Top.c, j |-> Top.i, fate |-> "restate"])]
  /\ UNCHANGED <<wid, nodes, verdict>>

NewNode(kind) == LET f == Top  h == f.res[f.i]  id == Len(nodes) + 1  kn == KidNodes(h.kids, id, id + 1)
                 IN [ty |-> h.ty, obf |-> h.obf, val |-> h.val, s |-> PlaceS, e |-> PlaceE, parent |-> f.cur,
                     children |-> kn.ids, kind |-> kind, src |-> <<f.c, f.i>>, fr |-> f.nid, as |-> h.s, ae |-> h.e]

AttachDecoded ==                             \* :60-66
  /\ Running /\ Top.pc = "place" /\ ~Restates /\ IsDecoded
  /\ LET f == Top  h == f.res[f.i]  id == Len(nodes) + 1  kn == KidNodes(h.kids, id, id + 1) IN
     /\ nodes' = [nodes EXCEPT ![f.cur].children = Append(@, id)] \o <<NewNode("dec")>> \o kn.ns
     /\ st' = Append(SetTop([f EXCEPT !.i = f.i + 1, !.pc = "loop",
                                      !.dEnd = IF Variant = "fixed" THEN h.e ELSE PlaceE]),   \* :65
                     Frame(id, f.d - 1))                                                     \* :66
  /\ log' = [log EXCEPT !.fates = Append(@, [c |-> Top.c, j |-> Top.i, fate |-> "attach"])]
  /\ UNCHANGED <<wid, verdict>>

AttachContext ==                             \* :60-61, :68-71
  /\ Running /\ Top.pc = "place" /\ ~Restates /\ ~IsDecoded
  /\ LET f == Top  id == Len(nodes) + 1 IN
     /\ nodes' = Append([nodes EXCEPT ![f.cur].children = Append(@, id)], NewNode("ctx"))
     /\ st' = SetTop([f EXCEPT !.i = f.i + 1, !.pc = "loop",
                               !.ctx = Append(f.ctx, f.cur), !.cur = id, !.off = f.off + PlaceS])
  /\ log' = [log EXCEPT !.fates = Append(@, [c |-> Top.c, j |-> Top.i, fate |-> "attach"])]
  /\ UNCHANGED <<wid, verdict>>

Ret ==                                       \* :30, :35, :73
  /\ Running /\ Top.pc = "ret"
  /\ st' = Front(st)
  /\ verdict' = IF Len(st) = 1 THEN "done" ELSE verdict
  /\ UNCHANGED <<wid, nodes, log>>

Next == EnterRet \/ EnterKids \/ Kids \/ Collect \/ LoopEnd \/ Skip \/ NoSkip \/ Pop
        \/ DropRestate \/ AttachDecoded \/ AttachContext \/ Ret

Spec == Init /\ [][Next]_vars /\ WF_vars(Next)

Done == verdict = "done"

---------------------------------------------------------------------------
(* the tree the machine has built, in the shape of the reference *)
RECURSIVE Build(_)
Build(id) == LET n == nodes[id] IN
  [ty |-> n.ty, obf |-> n.obf, val |-> n.val, s |-> n.s, e |-> n.e,
   kids |-> [k \in 1..Len(n.children) |-> Build(n.children[k])]]

RECURSIVE PreOrder(_)
PreOrder(id) == LET ch == nodes[id].children
                    RECURSIVE Cat(_)
                    Cat(k) == IF k > Len(ch) THEN <<>> ELSE <<ch[k]>> \o PreOrder(ch[k]) \o Cat(k + 1)
                IN Cat(1)

Ids == 1..Len(nodes)
\* number of decoding steps between the input and node id (every decoded or decoder-supplied node
\* on the path costs one)
RECURSIVE Steps(_)
Steps(id) == IF id = 1 THEN 0
             ELSE Steps(nodes[id].parent) + (IF nodes[id].kind \in {"dec", "kid"} THEN 1 ELSE 0)

---------------------------------------------------------------------------
(***************************************************************************)
(* Properties.                                                             *)
(***************************************************************************)
\* C06
Conforms == Done => Build(1) = RefTree(K)

\* C03: a well-formed tree over the input with in-bounds spans, in every state
WellFormed ==
  /\ LET r == nodes[1] IN r.ty = "" /\ r.obf = "" /\ r.val = 1 /\ r.s = 0 /\ r.e = TextLen(1) /\ r.parent = 0
  /\ \A id \in Ids \ {1} :
       LET n == nodes[id] IN
       /\ n.parent \in Ids
       /\ Cardinality({pk \in Ids \X (1..Len(nodes)) :
                          pk[2] <= Len(nodes[pk[1]].children) /\ nodes[pk[1]].children[pk[2]] = id}) = 1
       /\ \E k \in 1..Len(nodes[n.parent].children) : nodes[n.parent].children[k] = id
       /\ 0 <= n.s /\ n.s <= n.e /\ n.e <= TextLen(nodes[n.parent].val)
  /\ LET po == PreOrder(1) IN Len(po) = Len(nodes) - 1 /\ {po[i] : i \in 1..Len(po)} = Ids \ {1}

\* C04: the node attached for a hit at [as, ae) of the searched text denotes exactly those bytes
RECURSIVE CtxSum(_, _)
CtxSum(id, fr) == IF id = fr THEN 0 ELSE nodes[id].s + CtxSum(nodes[id].parent, fr)
AbsPos == \A id \in Ids : nodes[id].kind \in {"ctx", "dec"} =>
            LET n == nodes[id]  t == nodes[n.fr].val IN
            /\ CtxSum(id, n.fr) = n.as
            /\ n.e - n.s = n.ae - n.as
            /\ Lower(PySlice(TextB(nodes[n.parent].val), n.s, n.e)) = Lower(PySlice(TextB(t), n.as, n.ae))
ChainIsContext == \A id \in Ids : nodes[id].kind \in {"ctx", "dec"} =>
            LET RECURSIVE Ok(_)
                Ok(a) == a = nodes[id].fr \/ (nodes[a].kind = "ctx" /\ Ok(nodes[a].parent))
            IN Ok(nodes[id].parent)

\* C05: among the children the engine attaches to a node, starts are non-decreasing and ends strictly increasing
EngineKids(id) == SelectSeq(nodes[id].children, LAMBDA c : nodes[c].kind \in {"ctx", "dec"})
Laminar == \A id \in Ids :
             LET ch == EngineKids(id) IN
             \A k \in 1..(Len(ch) - 1) : nodes[ch[k]].s <= nodes[ch[k+1]].s /\ nodes[ch[k]].e < nodes[ch[k+1]].e
\* C05: nothing is reported from inside a region that an earlier hit of the same pass decoded
NoDoubleReport == \A a, b \in Ids :
             (/\ nodes[a].kind = "dec" /\ nodes[b].kind \in {"ctx", "dec"}
              /\ nodes[a].src[1] = nodes[b].src[1] /\ nodes[a].src[2] < nodes[b].src[2])
             => ~(nodes[a].as <= nodes[b].as /\ nodes[b].ae <= nodes[a].ae)

\* C06: nothing is lost or duplicated for a reason the model does not name
NoLoss == Done =>
  \A c \in 1..Len(log.collects) :
     LET fs == SelectSeq(log.fates, LAMBDA x : x.c = c) IN
     /\ Len(fs) = log.collects[c].n
     /\ \A j \in 1..Len(fs) : fs[j].j = j
     /\ \A j \in 1..Len(fs) :
          Cardinality({id \in Ids : nodes[id].src = <<c, j>>}) = (IF fs[j].fate = "attach" THEN 1 ELSE 0)

\* C07: decoders are applied only with positive remaining depth and fewer than K decoding steps from the input
DepthBound ==
  /\ \A c \in 1..Len(log.collects) : log.collects[c].d >= 1 /\ log.collects[c].d <= K
  /\ \A i \in 1..Len(st) : st[i].d = K - Steps(st[i].nid)
  /\ (K <= 0 => Len(nodes) = 1)
\* C07, reference level: every world, raising the limit only extends the tree
PrefixInDepth == Truncate(LvlScan(1, "", K + 1, 0), K) = RefScan(1, "", K)
PrefixDone == Done => PrefixInDepth

\* C08: when the activation of a decoded node returns, its sub-tree is a function of (type, value, depth) only
SubScan == (Running /\ Top.pc = "ret" /\ nodes[Top.nid].kind = "dec") =>
             LET hk == \E id \in Ids : nodes[id].parent = Top.nid /\ nodes[id].kind = "kid" IN
             ~hk => Build(Top.nid).kids = RefScan(nodes[Top.nid].val, nodes[Top.nid].ty, Top.d)

\* C01 (engine half)
NoHang == verdict # "hang"
Terminates == <>(verdict \in {"done", "hang"})
TerminatesDone == <>Done
===========================================================================
