-------------------------------- MODULE Repro --------------------------------
(***************************************************************************)
(* C09 as a design model: processes (each with its own environment order   *)
(* -- string-hash seed and directory enumeration order, abstracted as a    *)
(* permutation of the configured keyword entries), scanner instances       *)
(* (fresh or re-used), and threads that begin and end scans on shared      *)
(* instances in any interleaving.  A scan's result depends on the order in *)
(* which tied registry entries reach the engine: entries that hit the same *)
(* span nest in registry order.  Variant "asis" builds the registry in     *)
(* environment order (the pinned commit); "fixed" in canonical order.      *)
(***************************************************************************)
EXTENDS Integers, Sequences, FiniteSets, TLC, SequencesExt

CONSTANTS Procs, Threads, Insts, Variant, MaxScans

Entries == {"kwA", "kwB", "kwC"}                 \* kwA / kwB tie on input "x"; kwC hits alone
Inputs  == {"x", "y"}
HitsIn(inp) == IF inp = "x" THEN {"kwA", "kwB"} ELSE {"kwC"}
Depths  == {0, 1}
Canon   == <<"kwA", "kwB", "kwC">>
Perms   == {p \in [1..3 -> Entries] : \A a, b \in 1..3 : a # b => p[a] # p[b]}

VARIABLES env,       \* process -> its environment order, or <<>> before it starts
          inst,      \* instance -> [proc, reg, used] or "none"
          run,       \* thread -> [inst, inp, k] or "idle"
          done,      \* completed scans: set of [inp, k, tree]
          count      \* scans begun so far (bound)
vars == <<env, inst, run, done, count>>
NoInst == [proc |-> "", used |-> -1, reg |-> <<>>]
Idle   == [inst |-> "", inp |-> "", k |-> 0]
ProcOf(t) == IF t \in {"t1", "t2"} THEN "p1" ELSE "p2"       \* threads t1, t2 share process p1

Init == /\ env = [p \in Procs |-> <<>>] /\ inst = [i \in Insts |-> NoInst]
        /\ run = [t \in Threads |-> Idle] /\ done = {} /\ count = 0
StartProc(p) == /\ env[p] = <<>> /\ \E o \in Perms : env' = [env EXCEPT ![p] = o]
                /\ UNCHANGED <<inst, run, done, count>>
NewScanner(i, p) == /\ inst[i] = NoInst /\ env[p] # <<>>
                    /\ inst' = [inst EXCEPT ![i] = [proc |-> p, used |-> 0,
                                                    reg |-> IF Variant = "fixed" THEN Canon ELSE env[p]]]
                    /\ UNCHANGED <<env, run, done, count>>
Begin(t, i, inp, k) == /\ run[t] = Idle /\ inst[i] # NoInst /\ inst[i].proc = ProcOf(t) /\ count < MaxScans
                       /\ run' = [run EXCEPT ![t] = [inst |-> i, inp |-> inp, k |-> k]]
                       /\ inst' = [inst EXCEPT ![i].used = @ + 1]
                       /\ count' = count + 1 /\ UNCHANGED <<env, done>>
Tree(reg, inp, k) == IF k <= 0 THEN <<>> ELSE SelectSeq(reg, LAMBDA e : e \in HitsIn(inp))   \* nesting chain
End(t) == /\ run[t] # Idle
          /\ done' = done \cup {[inp |-> run[t].inp, k |-> run[t].k, tree |-> Tree(inst[run[t].inst].reg, run[t].inp, run[t].k)]}
          /\ run' = [run EXCEPT ![t] = Idle] /\ UNCHANGED <<env, inst, count>>
Next == \/ \E p \in Procs : StartProc(p)
        \/ \E i \in Insts, p \in Procs : NewScanner(i, p)
        \/ \E t \in Threads, i \in Insts, inp \in Inputs, k \in Depths : Begin(t, i, inp, k)
        \/ \E t \in Threads : End(t)
Spec == Init /\ [][Next]_vars

\* the tree is a function of input, depth limit and configuration contents only
Reproducible == \A a, b \in done : (a.inp = b.inp /\ a.k = b.k) => a.tree = b.tree
=============================================================================
