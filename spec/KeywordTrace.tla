---------------------------- MODULE KeywordTrace ----------------------------
(* One trace line = one call of a keyword searcher of the real registry: the searcher's label and
   keyword list, the data, and the hits it returned.  TLC recomputes the hits from Keyword.tla. *)
EXTENDS Keyword, Json, IOUtils
Traces == ndJsonDeserialize(IOEnv.TRACE_FILE)
VARIABLES tid, judged
T == Traces[tid]
Core(hs) == [i \in 1..Len(hs) |-> [ty |-> hs[i].ty, val |-> hs[i].val, s |-> hs[i].s, e |-> hs[i].e, obf |-> hs[i].obf]]
Expected == SearcherHits(T.label, T.kws, T.data)
Clauses ==
  (IF T.failed # <<>> THEN {"raised"} ELSE {})
  \cup (IF T.failed = <<>> /\ ~(Len(T.hits) = Len(Expected) /\ ToSet(Core(T.hits)) = ToSet(Expected)) THEN      \* (the order among keywords is C09's business)
          (IF {<<T.hits[i].val, T.hits[i].s, T.hits[i].e>> : i \in 1..Len(T.hits)}
              # {<<Expected[i].val, Expected[i].s, Expected[i].e>> : i \in 1..Len(Expected)} \/ Len(T.hits) # Len(Expected)
           THEN {"occurrences"} ELSE {"label"})
        ELSE {})
Init == tid \in 1..Len(Traces) /\ judged = FALSE
Judge == /\ ~judged
         /\ LET cl == Clauses IN
            /\ \A c \in cl : PrintT(<<"V", tid, c>>)
            /\ PrintT(<<"V", tid, IF cl = {} THEN "ACCEPT" ELSE "REJECT">>)
         /\ judged' = TRUE /\ UNCHANGED tid
Spec == Init /\ [][Judge]_<<tid, judged>>
=============================================================================
