------------------------------ MODULE Keyword ------------------------------
(***************************************************************************)
(* Keyword search (keyword.py).  Spec: the sentence of C17.  Machine: the  *)
(* find loop of find_all, one action per iteration.                        *)
(***************************************************************************)
EXTENDS Bytes

MIXED == <<77, 105, 120, 101, 100, 67, 97, 115, 101>>      \* "MixedCase"

---------------------------------------------------------------------------
(* Spec *)
Matches(kw, data, i) == i >= 0 /\ i + Len(kw) <= Len(data)
                        /\ Lower(SubSeq(data, i + 1, i + Len(kw))) = Lower(kw)
\* leftmost, non-overlapping occurrences: i is selected iff it matches and no selected j overlaps it from the left
Selected(kw, data) ==
  LET RECURSIVE Sel(_)
      Sel(i) == IF i < 0 THEN {}
                ELSE LET before == Sel(i - 1) IN
                     IF Matches(kw, data, i) /\ ~(\E j \in before : j < i /\ i < j + Len(kw))
                     THEN before \cup {i} ELSE before
  IN IF kw = <<>> THEN {} ELSE Sel(Len(data) - Len(kw))
Delimited(data, i, n) == /\ (i = 0 \/ ~IsAlnumB(data[i]))                 \* byte before, if any
                         /\ (i + n = Len(data) \/ ~IsAlnumB(data[i + n + 1]))  \* byte after, if any
HitStarts(kw, data) == {i \in Selected(kw, data) : Delimited(data, i, Len(kw))}

\* MixedCase: the matched text is neither all upper- nor all lower-case and differs in letter case from the keyword
Mixed(kw, raw) == /\ ~IsUpperS(raw) /\ ~IsLowerS(raw)
                  /\ \E i \in 1..Len(raw) : (IsUpperB(raw[i]) /\ ~IsUpperB(kw[i])) \/ (IsLowerB(raw[i]) /\ ~IsLowerB(kw[i]))

SetToSortedSeq(S) == SortSeq(SetToSeq(S), LAMBDA a, b : a < b)
HitsFor(label, kw, data) ==
  LET ss == SetToSortedSeq(HitStarts(kw, data))
  IN [j \in 1..Len(ss) |-> [ty |-> label, val |-> kw, s |-> ss[j], e |-> ss[j] + Len(kw),
                             obf |-> IF Mixed(kw, SubSeq(data, ss[j] + 1, ss[j] + Len(kw))) THEN MIXED ELSE <<>>]]
\* a searcher reports keyword by keyword, in the order of its list
RECURSIVE SearcherHits(_, _, _)
SearcherHits(label, kws, data) ==
  IF kws = <<>> THEN <<>> ELSE Tup(HitsFor(label, Head(kws), data)) \o SearcherHits(label, Tail(kws), data)
=============================================================================
