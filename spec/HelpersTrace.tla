----------------------------- MODULE HelpersTrace -----------------------------
EXTENDS Helpers, Json, IOUtils
Traces == ndJsonDeserialize(IOEnv.TRACE_FILE)
VARIABLES tid, judged
T == Traces[tid]
Clauses == IF T.kind = "brace" THEN (IF T.got = ClosingBrace(T.data, T.start) THEN {} ELSE {"closing-brace"})
           ELSE (IF T.got = PadBase64(T.data) THEN {} ELSE {"pad-base64"})
Init == tid \in 1..Len(Traces) /\ judged = FALSE
Judge == /\ ~judged
         /\ LET cl == Clauses IN
            /\ \A c \in cl : PrintT(<<"V", tid, c>>)
            /\ PrintT(<<"V", tid, IF cl = {} THEN "ACCEPT" ELSE "REJECT">>)
         /\ judged' = TRUE /\ UNCHANGED tid
Spec == Init /\ [][Judge]_<<tid, judged>>
=============================================================================
