CONSTANTS
 L0 = 3
 L1 = 2
 N0 = 1
 N1 = 1
 Ks = {1, 3}
 Types = {"", "x"}
 Kinds = {"slice", "flip", "target", "leaf", "self", "kid"}
 Variant = "fixed"
 Types1 = {"x"}
 Kinds1 = {"slice", "leaf", "self"}
 WK <- GenK
 WTexts <- GenTexts
 WHits <- GenHits
 NWorlds <- GenN
SPECIFICATION Spec
INVARIANT Conforms
INVARIANT WellFormed
INVARIANT AbsPos
INVARIANT ChainIsContext
INVARIANT Laminar
INVARIANT NoDoubleReport
INVARIANT NoLoss
INVARIANT DepthBound
INVARIANT PrefixDone
INVARIANT SubScan
INVARIANT NoHang
PROPERTY TerminatesDone
CHECK_DEADLOCK FALSE
