CONSTANTS
 Alphabet = {40, 41, 120, 34}
 MaxLen = 8
 Which = "paren"
 Variant = "fixed"
SPECIFICATION Spec
INVARIANT NoIndexError
INVARIANT CaretRefines
INVARIANT ParenRefines
INVARIANT CaretShrinks
PROPERTY Terminates
CHECK_DEADLOCK FALSE
