-------------------------------- MODULE Tree --------------------------------
(***************************************************************************)
(* Result trees and their read-only views (node.py, query.py,              *)
(* json_conversion.py): flatten, pre-order iteration, summary lines, the   *)
(* deprecated squash_replace used by the CLI's --replace, and the JSON     *)
(* document.  A tree is a nested record                                    *)
(*   [ty, obf : byte strings (UTF-8 of the labels), val : byte string,     *)
(*    s, e : Int, kids : Seq(tree)].                                       *)
(* These are the *specifications* (what C19 / C20 say); TreeMC.tla adds    *)
(* the code-shaped flatten loop and checks it against them over a bounded  *)
(* universe of trees; TreeTrace.tla checks what the implementation         *)
(* returned for real trees.                                                *)
(***************************************************************************)
EXTENDS Bytes

STRING_SUFFIX == <<115, 116, 114, 105, 110, 103>>       \* "string"
DQ == 34
SQ == 39

Covered(n, c) == PySlice(n.val, c.s, c.e)        \* the text of n that child c stands for
Wrap(c, data) == IF EndsWith(c.ty, STRING_SUFFIX) THEN <<DQ>> \o data \o <<DQ>> ELSE data

---------------------------------------------------------------------------
(* C19, as worded: take the children left to right, skip any child that starts before the end of the
   last substituted one, leave alone a child whose flattened value equals the text it covers, replace
   the span of every other one by its flattened value (quoted for string types); keep all other bytes. *)
RECURSIVE Flatten(_)
Flatten(n) ==
  LET fk == Tup([i \in 1..Len(n.kids) |-> Flatten(n.kids[i])])    \* evaluated once (a lazy function would recompute per use)
      RECURSIVE Chosen(_, _)
      Chosen(i, lastEnd) ==
        IF i > Len(n.kids) THEN <<>>
        ELSE IF n.kids[i].s >= lastEnd /\ fk[i] # Covered(n, n.kids[i])
             THEN <<i>> \o Chosen(i + 1, n.kids[i].e)
             ELSE Chosen(i + 1, lastEnd)
      ch == Chosen(1, 0)
      piece(j) == LET prevEnd == IF j = 1 THEN 0 ELSE n.kids[ch[j-1]].e
                  IN PySlice(n.val, prevEnd, n.kids[ch[j]].s) \o Wrap(n.kids[ch[j]], fk[ch[j]])
      lastEnd == IF ch = <<>> THEN 0 ELSE n.kids[ch[Len(ch)]].e
  IN Concat([j \in 1..Len(ch) |-> piece(j)]) \o PyFrom(n.val, lastEnd)

\* "a tree in which no node's value differs from the text it covers"
RECURSIVE Unchanged(_)
Unchanged(n) == \A i \in 1..Len(n.kids) : n.kids[i].val = Covered(n, n.kids[i]) /\ Unchanged(n.kids[i])

\* well-formedness assumed by C19: children in bounds and ordered by start
RECURSIVE Ordered(_)
Ordered(n) == /\ \A i \in 1..Len(n.kids) :
                    /\ 0 <= n.kids[i].s /\ n.kids[i].s <= n.kids[i].e /\ n.kids[i].e <= Len(n.val)
                    /\ Ordered(n.kids[i])
              /\ \A i \in 1..(Len(n.kids) - 1) : n.kids[i].s <= n.kids[i+1].s

---------------------------------------------------------------------------
(* query.squash_replace(data, forest): what the CLI's --replace prints *)
RECURSIVE Squash(_, _)
Squash(data, kids) ==
  LET RECURSIVE Go(_, _)
      Go(i, off) == IF i > Len(kids) THEN PyFrom(data, off)
                    ELSE LET c == kids[i]  d == Squash(c.val, c.kids) IN
                         IF d # PySlice(data, c.s, c.e)
                         THEN PySlice(data, off, c.s) \o Wrap(c, d) \o Go(i + 1, c.e)
                         ELSE Go(i + 1, off)
  IN Go(1, 0)
\* C20: --replace equals flatten whenever no two substituted results overlap
RECURSIVE NoSubstOverlap(_)
NoSubstOverlap(n) ==
  LET subst == {i \in 1..Len(n.kids) : Squash(n.kids[i].val, n.kids[i].kids) # Covered(n, n.kids[i])}
  IN /\ \A i, j \in subst : i < j => n.kids[i].e <= n.kids[j].s
     /\ \A i \in 1..Len(n.kids) : NoSubstOverlap(n.kids[i])

---------------------------------------------------------------------------
(* iteration: depth-first pre-order over paths (a path is the sequence of child indices from the root) *)
RECURSIVE PrePaths(_, _)
PrePaths(n, path) ==
  LET RECURSIVE Cat(_)
      Cat(i) == IF i > Len(n.kids) THEN <<>>
                ELSE <<Append(path, i)>> \o PrePaths(n.kids[i], Append(path, i)) \o Cat(i + 1)
  IN Cat(1)
RECURSIVE At(_, _)
At(n, path) == IF path = <<>> THEN n ELSE At(n.kids[Head(path)], Tail(path))

---------------------------------------------------------------------------
(* query.string_summary: one line per non-root node, pre-order *)
HexDigit(d) == IF d < 10 THEN 48 + d ELSE 87 + d            \* lower-case
EscByte(b, dbl) ==                                           \* repr(bytes) of one byte
  CASE b = 92 -> <<92, 92>>
    [] b = 9  -> <<92, 116>>
    [] b = 10 -> <<92, 110>>
    [] b = 13 -> <<92, 114>>
    [] b = SQ /\ ~dbl -> <<92, SQ>>
    [] b >= 32 /\ b < 127 /\ b # 92 /\ ~(b = SQ /\ ~dbl) -> <<b>>
    [] OTHER -> <<92, 120, HexDigit(b \div 16), HexDigit(b % 16)>>
Escape(v) == LET dbl == (\E i \in 1..Len(v) : v[i] = SQ) /\ ~(\E i \in 1..Len(v) : v[i] = DQ)
             IN Concat([i \in 1..Len(v) |-> EscByte(v[i], dbl)])
Elems(x) == (IF x.ty # <<>> THEN <<x.ty>> ELSE <<>>) \o (IF x.obf # <<>> THEN << <<62>> \o x.obf >> ELSE <<>>)
RECURSIVE Join(_)
Join(parts) == IF parts = <<>> THEN <<>> ELSE IF Len(parts) = 1 THEN parts[1]
               ELSE parts[1] \o <<47>> \o Join(Tail(parts))
\* make_label collects [type, ">"obfuscation] from the node up to the root and reverses the whole list
RECURSIVE UpElems(_, _)
UpElems(root, path) == IF path = <<>> THEN Elems(root)
                       ELSE Elems(At(root, path)) \o UpElems(root, SubSeq(path, 1, Len(path) - 1))
Label(root, path) == Join(Reverse(UpElems(root, path)))
SummaryLine(root, path) == Label(root, path) \o <<32>> \o Escape(At(root, path).val)
Summary(root) == LET ps == PrePaths(root, <<>>) IN [i \in 1..Len(ps) |-> SummaryLine(root, ps[i])]

---------------------------------------------------------------------------
(* json_conversion: the abstract JSON document *)
HexStr(v) == Concat([i \in 1..Len(v) |-> <<HexDigit(v[i] \div 16), HexDigit(v[i] % 16)>>])
HexVal(c) == IF c >= 48 /\ c <= 57 THEN c - 48 ELSE IF c >= 97 /\ c <= 102 THEN c - 87 ELSE c - 55
UnhexStr(h) == [i \in 1..(Len(h) \div 2) |-> 16 * HexVal(h[2*i - 1]) + HexVal(h[2*i])]
RECURSIVE JsonDoc(_)
JsonDoc(n) == [type |-> n.ty, value |-> HexStr(n.val), obfuscation |-> n.obf, start |-> n.s, end |-> n.e,
               children |-> [i \in 1..Len(n.kids) |-> JsonDoc(n.kids[i])]]
RECURSIVE FromDoc(_)
FromDoc(d) == [ty |-> d.type, obf |-> d.obfuscation, val |-> UnhexStr(d.value), s |-> d.start, e |-> d.end,
               kids |-> [i \in 1..Len(d.children) |-> FromDoc(d.children[i])]]

---------------------------------------------------------------------------
(* Node / query API that no listed property names (judged by TreeTrace as clauses api.*; a mismatch is reported as
   a note, never as a violation of a listed property) *)
\* Node.original with intact parent links: the text of the parent that the node stands for; the root's own value
Original(root, path) == IF path = <<>> THEN root.val ELSE Covered(At(root, SubSeq(path, 1, Len(path) - 1)), At(root, path))
Originals(root) == LET ps == PrePaths(root, <<>>) IN [i \in 1..Len(ps) |-> Original(root, ps[i])]
\* Node.shift / node.shift_nodes: start and end move by k, nothing else changes (children keep their parent-relative spans)
Shifted(n, k) == [n EXCEPT !.s = @ + k, !.e = @ + k]
ShiftFirst(root, k) == IF root.kids = <<>> THEN root ELSE [root EXCEPT !.kids = <<Shifted(root.kids[1], k)>> \o Tail(root.kids)]
ShiftAll(root, k) == [root EXCEPT !.kids = [i \in 1..Len(root.kids) |-> Shifted(root.kids[i], k)]]
\* query.invert_tree(forest): the descendants of every listed node in pre-order - the listed nodes themselves are absent
InvertPaths(root) == LET RECURSIVE Cat(_)
                         Cat(i) == IF i > Len(root.kids) THEN <<>> ELSE PrePaths(root.kids[i], <<i>>) \o Cat(i + 1)
                     IN Cat(1)
\* query.obfuscation_counts(forest), AS CODED: Counter.update(label) is given a string, so what is counted are the
\* characters of the non-empty labels of all nodes; ObfCountsIntended is what its deprecation notice describes
\* (one count per non-empty label).  The two agree only when every label is a single character.
Chars(bs) == LET starts == {i \in 1..Len(bs) : bs[i] < 128 \/ bs[i] >= 192}          \* UTF-8: a character starts at every non-continuation byte
                 nxt(i) == LET later == {j \in starts : j > i} IN IF later = {} THEN Len(bs) + 1 ELSE CHOOSE j \in later : \A m \in later : j <= m
                 ordered == SetToSortSeq(starts, LAMBDA a, b : a < b)
             IN [x \in 1..Len(ordered) |-> SubSeq(bs, ordered[x], nxt(ordered[x]) - 1)]
RECURSIVE ObfLabels(_)
ObfLabels(kids) == Concat([i \in 1..Len(kids) |-> (IF kids[i].obf # <<>> THEN <<kids[i].obf>> ELSE <<>>) \o ObfLabels(kids[i].kids)])
BagOf(seq) == {<<c, Cardinality({i \in 1..Len(seq) : seq[i] = c})>> : c \in {seq[i] : i \in 1..Len(seq)}}
ObfCountsIntended(kids) == BagOf(ObfLabels(kids))
ObfCountsAsCoded(kids) == LET ls == ObfLabels(kids) IN BagOf(Concat([i \in 1..Len(ls) |-> Chars(ls[i])]))
=============================================================================
