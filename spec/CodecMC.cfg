CONSTANTS
 MaxLen = 4
 Bs = {0, 1, 37, 65, 97, 128, 200, 255}
SPECIFICATION Spec
INVARIANT B64RoundTrip
INVARIANT HexRoundTrip
INVARIANT XmlRoundTrip
INVARIANT XorInvolution
INVARIANT Utf16RoundTrip
INVARIANT PercentPlain
CHECK_DEADLOCK FALSE
