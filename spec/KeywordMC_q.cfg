CONSTANTS
 Alphabet = {97, 65, 98, 66, 49, 45}
 MaxKw = 3
 MaxData = 4
SPECIFICATION Spec
INVARIANT Refines
INVARIANT LabelAgrees
INVARIANT Sound
PROPERTY Terminates
CHECK_DEADLOCK FALSE
