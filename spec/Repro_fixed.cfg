CONSTANTS
 Procs = {"p1", "p2"}
 Threads = {"t1", "t2", "t3"}
 Insts = {"i1", "i2", "i3"}
 Variant = "fixed"
 MaxScans = 4
SPECIFICATION Spec
INVARIANT Reproducible
CHECK_DEADLOCK FALSE
